#![allow(dead_code)]
mod engine;
mod instr;
mod oracles;
mod props;
mod spaces;

use engine::{RunCfg, Tier};

fn usage() -> ! {
    eprintln!("usage: vcheck <ID> <quick|thorough> | vcheck <ID> --replay <file> | vcheck --list");
    std::process::exit(2)
}

fn main() {
    let args: Vec<String> = std::env::args().skip(1).collect();
    if args.first().map(|s| s.as_str()) == Some("--list") {
        for p in props::registry() {
            println!("{}", p.id);
        }
        return;
    }
    if args.len() < 2 {
        usage();
    }
    let id = args[0].clone();
    let reg = props::registry();
    let entry = match reg.iter().find(|p| p.id == id) {
        Some(e) => e,
        None => {
            eprintln!("unknown property {}", id);
            std::process::exit(2)
        }
    };
    engine::install_panic_hook();
    instr::disarm_all();
    let verif_dir = std::env::var("VERIF_DIR").unwrap_or_else(|_| "/verif".to_string());
    if args[1] == "--probe-offsets" {
        std::process::exit(props::c01::offset_probe_child());
    }
    if args[1] == "--replay" {
        let path = args.get(2).cloned().unwrap_or_else(|| usage());
        let body = match std::fs::read_to_string(&path)
            .ok()
            .and_then(|s| serde_json::from_str::<serde_json::Value>(&s).ok())
        {
            Some(v) => v,
            None => {
                eprintln!("cannot read replay file {}", path);
                std::process::exit(2)
            }
        };
        let case = body.get("case").cloned().unwrap_or(body.clone());
        if let (Some(h), Some(tier)) = (case.get("hang").and_then(|x| x.as_str()), case.get("tier").and_then(|x| x.as_str())) {
            let limit = case.get("limit_s").and_then(|x| x.as_u64()).unwrap_or(300);
            let st = child_cmd(&[id.clone(), tier.to_string()])
                .env("VERIF_ONLY", h)
                .env("VERIF_HANG_LIMIT_S", limit.to_string())
                .env("VERIF_EVIDENCE_PATH", format!("{}/harness/target/crash-probe-{}.json", verif_dir, id))
                .stdout(std::process::Stdio::null())
                .stderr(std::process::Stdio::null())
                .status();
            match st.map(|s| s.code()) {
                Ok(Some(3)) => {
                    println!("complaint: shard {} (exploration:shard) does not come back within {} s", h, limit);
                    println!("case: {}", case);
                    println!("VIOLATION property={} replay={}", id, path);
                    std::process::exit(1);
                }
                Ok(c) => {
                    println!("replay property={} case={} : the shard came back ({:?})", id, case, c);
                    std::process::exit(if c == Some(1) { 1 } else { 0 });
                }
                Err(e) => {
                    eprintln!("cannot start the replay child: {}", e);
                    std::process::exit(2);
                }
            }
        }
        if let (Some(slice), Some(tier)) = (case.get("crash_shard_mod").and_then(|x| x.as_str()), case.get("tier").and_then(|x| x.as_str())) {
            let st = child_cmd(&[id.clone(), tier.to_string()])
                .env("VERIF_SHARD_MOD", slice)
                .env("VERIF_EVIDENCE_PATH", format!("{}/harness/target/crash-probe-{}.json", verif_dir, id))
                .stdout(std::process::Stdio::null())
                .stderr(std::process::Stdio::null())
                .status();
            match st {
                Ok(st) if fatal_signal(&st).is_some() => {
                    println!("complaint: the code under test kills the process (signal {}) while exploring the shards {}", fatal_signal(&st).unwrap(), slice);
                    println!("case: {}", case);
                    println!("VIOLATION property={} replay={}", id, path);
                    std::process::exit(1);
                }
                Ok(st) => {
                    println!("replay property={} case={} : the slice ran to its end ({:?})", id, case, st.code());
                    std::process::exit(if st.code() == Some(1) { 1 } else { 0 });
                }
                Err(e) => {
                    eprintln!("cannot start the replay child: {}", e);
                    std::process::exit(2);
                }
            }
        }
        // two executions, each on a thread of its own (so that neither sees thread-local state
        // the other - or this thread - left behind in the code under test)
        let replay_fn = entry.replay;
        let once = |case: serde_json::Value| -> Result<String, String> {
            std::thread::Builder::new()
                .stack_size(64 << 20)
                .spawn(move || {
                    instr::disarm_all();
                    replay_fn(&case)
                })
                .expect("spawn")
                .join()
                .unwrap_or_else(|_| Err("replay thread panicked outside the code under test".to_string()))
        };
        // (complaints may quote raw addresses of slices - pointer identity is part of some
        // oracles -; they differ from run to run and are masked before the comparison)
        fn mask(r: Result<String, String>) -> Result<String, String> {
            fn m(s: String) -> String {
                let mut out = String::with_capacity(s.len());
                let mut run = String::new();
                for ch in s.chars().chain(std::iter::once(' ')) {
                    if ch.is_ascii_digit() {
                        run.push(ch);
                    } else {
                        if run.len() >= 12 {
                            out.push_str("<addr>");
                        } else {
                            out.push_str(&run);
                        }
                        run.clear();
                        out.push(ch);
                    }
                }
                out.pop();
                out
            }
            match r {
                Ok(s) => Ok(s),
                Err(e) => Err(m(e)),
            }
        }
        let a = mask(once(case.clone()));
        let b = mask(once(case.clone()));
        if a != b {
            eprintln!("replay diverged between two executions of the same case:\n  1: {:?}\n  2: {:?}", a, b);
            if id == "C20" {
                // two executions of one case giving different results is C20's own subject
                println!("complaint: two executions of the same case on fresh threads differ: {:?} vs {:?}", a, b);
                println!("case: {}", case);
                println!("VIOLATION property={} replay={}", id, path);
                std::process::exit(1);
            }
            std::process::exit(2);
        }
        match a {
            Ok(obs) => {
                println!("replay property={} case={} : {}", id, case, obs);
                std::process::exit(0);
            }
            Err(c) => {
                println!("complaint: {}", c);
                println!("case: {}", case);
                println!("VIOLATION property={} replay={}", id, path);
                std::process::exit(1);
            }
        }
    }
    let tier = match args[1].as_str() {
        "quick" => Tier::Quick,
        "thorough" => Tier::Thorough,
        _ => usage(),
    };
    props::common::MODES_TIER.store(if tier == Tier::Quick { 1 } else { 2 }, std::sync::atomic::Ordering::Relaxed);
    let seed = std::env::var("VERIF_SEED")
        .ok()
        .and_then(|s| s.parse::<u64>().ok())
        .unwrap_or(0);
    let threads = std::env::var("VERIF_THREADS")
        .ok()
        .and_then(|s| s.parse::<usize>().ok())
        .unwrap_or_else(|| std::thread::available_parallelism().map(|n| n.get()).unwrap_or(4));
    let cfg = RunCfg {
        prop: id.clone(),
        tier,
        seed,
        threads,
        verif_dir,
        wall_cap_s: std::env::var("VERIF_WALL_CAP_S")
            .ok()
            .and_then(|s| s.parse::<f64>().ok())
            .unwrap_or(match tier {
                Tier::Quick => 600.0,
                Tier::Thorough => 7200.0,
            }),
    };
    // Supervisor: the exploration itself runs in a CHILD process.  Panics of the code under test
    // are caught in-process, but an abort (absurd allocation), a stack overflow or a segfault
    // kills the process; the parent then looks for the slice of the exploration that does it and
    // reports that as the violation it is, instead of dying without a verdict.
    if std::env::var("VERIF_CHILD").is_err() {
        std::process::exit(supervise(&cfg, &args));
    }
    // a panic outside `subject` is a harness failure, never a verdict
    let res = std::panic::catch_unwind(std::panic::AssertUnwindSafe(|| (entry.run)(&cfg)));
    match res {
        Ok(rep) => {
            let code = engine::conclude(&cfg, rep);
            std::process::exit(code);
        }
        Err(_) => {
            eprintln!("harness error: the check panicked outside the code under test");
            std::process::exit(2);
        }
    }
}

/// signals that mean "the code under test killed the process" (SIGILL, SIGABRT, SIGBUS, SIGSEGV);
/// anything else (SIGKILL from the OOM killer, SIGTERM ...) is the environment's doing
fn fatal_signal(st: &std::process::ExitStatus) -> Option<i32> {
    use std::os::unix::process::ExitStatusExt;
    match st.signal() {
        Some(s) if [4, 6, 7, 11].contains(&s) => Some(s),
        _ => None,
    }
}

fn child_cmd(args: &[String]) -> std::process::Command {
    let exe = std::env::current_exe().expect("current_exe");
    let mut c = std::process::Command::new(exe);
    c.args(args).env("VERIF_CHILD", "1");
    c
}

const SLICES: usize = 16;

fn supervise(cfg: &engine::RunCfg, args: &[String]) -> i32 {
    let st = match child_cmd(args).status() {
        Ok(s) => s,
        Err(e) => {
            eprintln!("harness error: cannot start the exploration child: {}", e);
            return 2;
        }
    };
    if st.code() == Some(3) {
        // the watchdog of the child: one shard did not come back
        let hf = engine::hang_file(cfg);
        let info = std::fs::read_to_string(&hf).ok().and_then(|s| serde_json::from_str::<serde_json::Value>(&s).ok());
        let _ = std::fs::remove_file(&hf);
        if let Some(info) = info {
            let (ord, shard, limit) = (
                info.get("exploration").and_then(|x| x.as_u64()).unwrap_or(0),
                info.get("shard").and_then(|x| x.as_u64()).unwrap_or(0),
                info.get("limit_s").and_then(|x| x.as_u64()).unwrap_or(0),
            );
            let mut rep = engine::CheckReport::new(
                "exploration",
                "supervisor: the exploration was run in a child process whose watchdog found one shard running longer than the per-shard limit",
            );
            let mut acc = engine::Acc::default();
            acc.violation(|| {
                (
                    serde_json::json!({"hang": format!("{}:{}", ord, shard), "limit_s": limit, "tier": cfg.tier.name()}),
                    format!(
                        "the code under test did not come back: shard {} of exploration #{} of this check ran for more than {} s (the whole check takes well under that on the pinned tree); no diff result was delivered",
                        shard, ord, limit
                    ),
                )
            });
            rep.part("hang", serde_json::json!({}), engine::Explored { acc, shards_total: 1, shards_done: 0, capped: false, wall_s: 0.0 });
            return engine::conclude(cfg, rep);
        }
        eprintln!("harness error: the exploration child exited with code 3 without a watchdog record");
        return 2;
    }
    if let Some(c) = st.code() {
        return c;
    }
    let sig = match fatal_signal(&st) {
        Some(s) => s,
        None => {
            eprintln!("harness error: the exploration child was terminated from outside ({:?})", st);
            return 2;
        }
    };
    eprintln!("the exploration child was killed by signal {}; looking for the slice of the exploration that does it", sig);
    let scratch = format!("{}/harness/target/crash-probe-{}.json", cfg.verif_dir, cfg.prop);
    for k in 0..SLICES {
        let st = child_cmd(args)
            .env("VERIF_SHARD_MOD", format!("{}/{}", k, SLICES))
            .env("VERIF_EVIDENCE_PATH", &scratch)
            .stdout(std::process::Stdio::null())
            .stderr(std::process::Stdio::null())
            .status();
        if let Ok(st) = st {
            if let Some(s2) = fatal_signal(&st) {
                let _ = std::fs::remove_file(&scratch);
                let mut rep = engine::CheckReport::new(
                    "exploration",
                    "supervisor: the exploration was run in a child process, which was killed by a signal; the exploration was then re-run in 16 slices (shard index modulo 16), each in a child of its own, to find one that reproduces the death",
                );
                let mut acc = engine::Acc::default();
                acc.violation(|| {
                    (
                        serde_json::json!({"crash_shard_mod": format!("{}/{}", k, SLICES), "signal": s2, "tier": cfg.tier.name()}),
                        format!(
                            "the code under test KILLED the process (signal {}: abort / stack overflow / invalid memory access) while exploring the shards with index {} modulo {}; no diff result was delivered",
                            s2, k, SLICES
                        ),
                    )
                });
                rep.part("crash", serde_json::json!({}), engine::Explored { acc, shards_total: 1, shards_done: 0, capped: false, wall_s: 0.0 });
                return engine::conclude(cfg, rep);
            }
        }
    }
    let _ = std::fs::remove_file(&scratch);
    eprintln!("harness error: the death of the exploration child (signal {}) did not reproduce in any slice", sig);
    2
}
