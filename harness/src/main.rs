#![allow(dead_code)]
mod engine;
mod instr;
mod oracles;
mod props;
mod spaces;

use engine::{RunCfg, Tier};

fn usage() -> ! {
    eprintln!("usage: vcheck <ID> <quick|thorough> | vcheck <ID> --replay <file> | vcheck --list");
    std::process::exit(2)
}

fn main() {
    let args: Vec<String> = std::env::args().skip(1).collect();
    if args.first().map(|s| s.as_str()) == Some("--list") {
        for p in props::registry() {
            println!("{}", p.id);
        }
        return;
    }
    if args.len() < 2 {
        usage();
    }
    let id = args[0].clone();
    let reg = props::registry();
    let entry = match reg.iter().find(|p| p.id == id) {
        Some(e) => e,
        None => {
            eprintln!("unknown property {}", id);
            std::process::exit(2)
        }
    };
    engine::install_panic_hook();
    instr::disarm_all();
    let verif_dir = std::env::var("VERIF_DIR").unwrap_or_else(|_| "/verif".to_string());
    if args[1] == "--probe-offsets" {
        std::process::exit(props::c01::offset_probe_child());
    }
    if args[1] == "--replay" {
        let path = args.get(2).cloned().unwrap_or_else(|| usage());
        let body = match std::fs::read_to_string(&path)
            .ok()
            .and_then(|s| serde_json::from_str::<serde_json::Value>(&s).ok())
        {
            Some(v) => v,
            None => {
                eprintln!("cannot read replay file {}", path);
                std::process::exit(2)
            }
        };
        let case = body.get("case").cloned().unwrap_or(body.clone());
        // two executions, each on a thread of its own (so that neither sees thread-local state
        // the other - or this thread - left behind in the code under test)
        let replay_fn = entry.replay;
        let once = |case: serde_json::Value| -> Result<String, String> {
            std::thread::Builder::new()
                .stack_size(64 << 20)
                .spawn(move || {
                    instr::disarm_all();
                    replay_fn(&case)
                })
                .expect("spawn")
                .join()
                .unwrap_or_else(|_| Err("replay thread panicked outside the code under test".to_string()))
        };
        let a = once(case.clone());
        let b = once(case.clone());
        if a != b {
            eprintln!("replay diverged between two executions of the same case:\n  1: {:?}\n  2: {:?}", a, b);
            if id == "C20" {
                // two executions of one case giving different results is C20's own subject
                println!("complaint: two executions of the same case on fresh threads differ: {:?} vs {:?}", a, b);
                println!("case: {}", case);
                println!("VIOLATION property={} replay={}", id, path);
                std::process::exit(1);
            }
            std::process::exit(2);
        }
        match a {
            Ok(obs) => {
                println!("replay property={} case={} : {}", id, case, obs);
                std::process::exit(0);
            }
            Err(c) => {
                println!("complaint: {}", c);
                println!("case: {}", case);
                println!("VIOLATION property={} replay={}", id, path);
                std::process::exit(1);
            }
        }
    }
    let tier = match args[1].as_str() {
        "quick" => Tier::Quick,
        "thorough" => Tier::Thorough,
        _ => usage(),
    };
    props::common::MODES_QUICK.store(tier == Tier::Quick, std::sync::atomic::Ordering::Relaxed);
    let seed = std::env::var("VERIF_SEED")
        .ok()
        .and_then(|s| s.parse::<u64>().ok())
        .unwrap_or(0);
    let threads = std::env::var("VERIF_THREADS")
        .ok()
        .and_then(|s| s.parse::<usize>().ok())
        .unwrap_or_else(|| std::thread::available_parallelism().map(|n| n.get()).unwrap_or(4));
    let cfg = RunCfg {
        prop: id.clone(),
        tier,
        seed,
        threads,
        verif_dir,
        wall_cap_s: std::env::var("VERIF_WALL_CAP_S")
            .ok()
            .and_then(|s| s.parse::<f64>().ok())
            .unwrap_or(match tier {
                Tier::Quick => 600.0,
                Tier::Thorough => 7200.0,
            }),
    };
    // a panic outside `subject` is a harness failure, never a verdict
    let res = std::panic::catch_unwind(std::panic::AssertUnwindSafe(|| (entry.run)(&cfg)));
    match res {
        Ok(rep) => {
            let code = engine::conclude(&cfg, rep);
            std::process::exit(code);
        }
        Err(_) => {
            eprintln!("harness error: the check panicked outside the code under test");
            std::process::exit(2);
        }
    }
}
