//! Reference models.  Boring on purpose: a DP table, cursor automata, a patch applier.

use crate::instr::Call;
use similar::{DiffOp, DiffTag};
use std::ops::Range;

/// Length of a longest common subsequence (plain O(NM) dynamic programming).
pub fn lcs_len<T: PartialEq>(a: &[T], b: &[T]) -> usize {
    if a.is_empty() || b.is_empty() {
        return 0;
    }
    let mut prev = vec![0usize; b.len() + 1];
    let mut cur = vec![0usize; b.len() + 1];
    for i in 1..=a.len() {
        for j in 1..=b.len() {
            cur[j] = if a[i - 1] == b[j - 1] {
                prev[j - 1] + 1
            } else {
                prev[j].max(cur[j - 1])
            };
        }
        std::mem::swap(&mut prev, &mut cur);
    }
    prev[b.len()]
}

#[derive(Default, Clone, Copy, Debug)]
pub struct StreamStats {
    pub equal_items: usize,
    pub deleted: usize,
    pub inserted: usize,
    pub equal_calls: usize,
    pub change_calls: usize,
    pub finishes: usize,
}

/// C01 cursor automaton over a raw callback stream.
///
/// * positive lengths, each call consumes exactly the next unconsumed items, inside the ranges
/// * equal segments are element-wise equal
/// * carried indices (new index of a delete, old index of an insert) lie within the closed
///   interval spanned by the maximal run of non-equal calls they belong to (which makes them
///   exact when the call stands alone)
/// * the stream ends at both range ends; exactly one finish, and it is the last call
///   (`expect_finish = false`: no finish at all, for the finish-suppressing wrapper)
/// * replaying equal/insert/replace segments reproduces new[range]
pub fn validate_stream<T: PartialEq>(
    calls: &[Call],
    old: &[T],
    or: Range<usize>,
    new: &[T],
    nr: Range<usize>,
    expect_finish: bool,
) -> Result<StreamStats, String> {
    let mut st = StreamStats::default();
    let n_calls = calls.len();
    // finish discipline
    for (i, c) in calls.iter().enumerate() {
        if *c == Call::Fin {
            st.finishes += 1;
            if i + 1 != n_calls {
                return Err(format!("call #{} after finish", i + 1));
            }
        }
    }
    if expect_finish && st.finishes != 1 {
        return Err(format!("finish called {} times, expected once", st.finishes));
    }
    if !expect_finish && st.finishes != 0 {
        return Err(format!("finish called {} times, expected never", st.finishes));
    }
    let body = &calls[..n_calls - st.finishes];
    let mut co = or.start;
    let mut cn = nr.start;
    let mut rebuilt = 0usize; // number of new items reproduced so far (== cn - nr.start)
    let mut i = 0;
    while i < body.len() {
        match body[i] {
            Call::Eq(o, n, l) => {
                if l == 0 {
                    return Err(format!("call #{}: empty equal", i));
                }
                if o != co || n != cn {
                    return Err(format!(
                        "call #{}: equal({},{},{}) but cursor is at old {} new {}",
                        i, o, n, l, co, cn
                    ));
                }
                if o + l > or.end || n + l > nr.end {
                    return Err(format!("call #{}: equal runs past the requested range", i));
                }
                for d in 0..l {
                    if old[o + d] != new[n + d] {
                        return Err(format!(
                            "call #{}: equal({},{},{}) pairs unequal items old[{}] new[{}]",
                            i,
                            o,
                            n,
                            l,
                            o + d,
                            n + d
                        ));
                    }
                }
                co += l;
                cn += l;
                rebuilt += l;
                st.equal_items += l;
                st.equal_calls += 1;
                i += 1;
            }
            Call::Fin => unreachable!(),
            _ => {
                // maximal run of non-equal calls
                let run_start = i;
                let (ro0, rn0) = (co, cn);
                let mut j = i;
                while j < body.len() && !matches!(body[j], Call::Eq(..)) {
                    match body[j] {
                        Call::Del(o, l, _) => {
                            if l == 0 {
                                return Err(format!("call #{}: empty delete", j));
                            }
                            if o != co {
                                return Err(format!(
                                    "call #{}: delete at old {} but cursor is at old {}",
                                    j, o, co
                                ));
                            }
                            co += l;
                            st.deleted += l;
                        }
                        Call::Ins(_, n, l) => {
                            if l == 0 {
                                return Err(format!("call #{}: empty insert", j));
                            }
                            if n != cn {
                                return Err(format!(
                                    "call #{}: insert at new {} but cursor is at new {}",
                                    j, n, cn
                                ));
                            }
                            cn += l;
                            rebuilt += l;
                            st.inserted += l;
                        }
                        Call::Rep(o, ol, n, nl) => {
                            if ol == 0 || nl == 0 {
                                return Err(format!("call #{}: replace with an empty side", j));
                            }
                            if o != co || n != cn {
                                return Err(format!(
                                    "call #{}: replace({},{},{},{}) but cursor is at old {} new {}",
                                    j, o, ol, n, nl, co, cn
                                ));
                            }
                            co += ol;
                            cn += nl;
                            rebuilt += nl;
                            st.deleted += ol;
                            st.inserted += nl;
                        }
                        _ => unreachable!(),
                    }
                    if co > or.end || cn > nr.end {
                        return Err(format!("call #{}: runs past the requested range", j));
                    }
                    st.change_calls += 1;
                    j += 1;
                }
                // carried indices within the run's span
                for (k, c) in body[run_start..j].iter().enumerate() {
                    match *c {
                        Call::Del(_, _, n) => {
                            if n < rn0 || n > cn {
                                return Err(format!(
                                    "call #{}: delete carries new index {} outside its run of changes (new {}..={})",
                                    run_start + k, n, rn0, cn
                                ));
                            }
                        }
                        Call::Ins(o, _, _) => {
                            if o < ro0 || o > co {
                                return Err(format!(
                                    "call #{}: insert carries old index {} outside its run of changes (old {}..={})",
                                    run_start + k, o, ro0, co
                                ));
                            }
                        }
                        _ => {}
                    }
                }
                i = j;
            }
        }
    }
    if co != or.end || cn != nr.end {
        return Err(format!(
            "stream ends at old {} new {}, requested ranges end at old {} new {}",
            co, cn, or.end, nr.end
        ));
    }
    if rebuilt != nr.end - nr.start {
        return Err("replaying the callbacks does not reproduce the new range".into());
    }
    Ok(st)
}

#[derive(Default, Clone, Copy, Debug)]
pub struct OpsStats {
    pub equal_items: usize,
    pub deleted: usize,
    pub inserted: usize,
    pub n_equal: usize,
    pub n_change: usize,
}

/// C02 cursor automaton over captured ops.  With `exact` it is the C11 automaton: both
/// indices of every op (including the carried ones) must equal the cursor.
pub fn validate_ops<T: PartialEq>(
    ops: &[DiffOp],
    old: &[T],
    or: Range<usize>,
    new: &[T],
    nr: Range<usize>,
    exact: bool,
) -> Result<OpsStats, String> {
    let mut st = OpsStats::default();
    let mut co = or.start;
    let mut cn = nr.start;
    for (i, op) in ops.iter().enumerate() {
        let (tag, o, n) = op.as_tag_tuple();
        let consumes_old = !matches!(tag, DiffTag::Insert);
        let consumes_new = !matches!(tag, DiffTag::Delete);
        if consumes_old && o.start != co {
            return Err(format!(
                "op #{} {:?}: old range starts at {} but {} old items are consumed",
                i, op, o.start, co
            ));
        }
        if consumes_new && n.start != cn {
            return Err(format!(
                "op #{} {:?}: new range starts at {} but {} new items are consumed",
                i, op, n.start, cn
            ));
        }
        if exact && (o.start != co || n.start != cn) {
            return Err(format!(
                "op #{} {:?}: carries position (old {}, new {}) but the true position is (old {}, new {})",
                i, op, o.start, n.start, co, cn
            ));
        }
        let ol = if consumes_old { o.end - o.start } else { 0 };
        let nl = if consumes_new { n.end - n.start } else { 0 };
        if co + ol > or.end || cn + nl > nr.end {
            return Err(format!("op #{} {:?}: runs past the end", i, op));
        }
        match tag {
            DiffTag::Equal => {
                for d in 0..ol {
                    if old[co + d] != new[cn + d] {
                        return Err(format!(
                            "op #{} {:?}: pairs unequal items old[{}] new[{}]",
                            i,
                            op,
                            co + d,
                            cn + d
                        ));
                    }
                }
                st.equal_items += ol;
                st.n_equal += 1;
            }
            _ => {
                st.deleted += ol;
                st.inserted += nl;
                st.n_change += 1;
            }
        }
        co += ol;
        cn += nl;
    }
    if co != or.end || cn != nr.end {
        return Err(format!(
            "ops end at old {} new {}, sequences end at old {} new {}",
            co, cn, or.end, nr.end
        ));
    }
    Ok(st)
}

/// Applies ops to `old` (taking inserted items from `new`) and, inverted, to `new`.
pub fn apply_ops<T: Clone + PartialEq>(
    ops: &[DiffOp],
    old: &[T],
    or: Range<usize>,
    new: &[T],
    nr: Range<usize>,
) -> Result<(), String> {
    let mut fwd: Vec<T> = vec![];
    let mut bwd: Vec<T> = vec![];
    for op in ops {
        let (tag, o, n) = op.as_tag_tuple();
        if o.end > old.len() || n.end > new.len() {
            return Err(format!("{:?} addresses items that do not exist", op));
        }
        match tag {
            DiffTag::Equal => {
                fwd.extend_from_slice(&old[o.clone()]);
                bwd.extend_from_slice(&new[n.clone()]);
            }
            DiffTag::Delete => bwd.extend_from_slice(&old[o.clone()]),
            DiffTag::Insert => fwd.extend_from_slice(&new[n.clone()]),
            DiffTag::Replace => {
                fwd.extend_from_slice(&new[n.clone()]);
                bwd.extend_from_slice(&old[o.clone()]);
            }
        }
    }
    if fwd[..] != new[nr] {
        return Err("applying the ops to old does not yield new".into());
    }
    if bwd[..] != old[or] {
        return Err("applying the inverted ops to new does not yield old".into());
    }
    Ok(())
}

/// C09 normal form.
pub fn normal_form<T: PartialEq>(ops: &[DiffOp], old: &[T], new: &[T]) -> Result<(), String> {
    for (i, op) in ops.iter().enumerate() {
        let (tag, o, n) = op.as_tag_tuple();
        let empty = match tag {
            DiffTag::Equal => o.is_empty(),
            DiffTag::Delete => o.is_empty(),
            DiffTag::Insert => n.is_empty(),
            DiffTag::Replace => o.is_empty() || n.is_empty(),
        };
        if empty {
            return Err(format!("op #{} {:?} is empty", i, op));
        }
        if i > 0 {
            let prev_eq = ops[i - 1].tag() == DiffTag::Equal;
            let this_eq = tag == DiffTag::Equal;
            if prev_eq == this_eq {
                return Err(format!(
                    "ops #{} {:?} and #{} {:?} do not alternate between Equal and non-Equal",
                    i - 1,
                    ops[i - 1],
                    i,
                    op
                ));
            }
        }
        if tag == DiffTag::Insert {
            if let Some(next) = ops.get(i + 1) {
                if next.tag() == DiffTag::Equal {
                    let eo = next.old_range().start;
                    if eo < old.len() && n.start < new.len() && new[n.start] == old[eo] {
                        return Err(format!(
                            "op #{} {:?} could slide down: its first item equals the first equal item after it",
                            i, op
                        ));
                    }
                }
            }
        }
    }
    Ok(())
}

pub fn ops_fp(ops: &[DiffOp]) -> u64 {
    let mut h = crate::engine::Fp::new();
    for op in ops {
        let (t, o, n) = op.as_tag_tuple();
        h.add(t as u64);
        h.add(o.start as u64 | (o.end as u64) << 20);
        h.add(n.start as u64 | (n.end as u64) << 20);
    }
    h.0
}

pub fn calls_fp(calls: &[Call]) -> u64 {
    let mut h = crate::engine::Fp::new();
    for c in calls {
        h.add(c.fp());
    }
    h.0
}

pub fn alg_name(a: similar::Algorithm) -> &'static str {
    match a {
        similar::Algorithm::Myers => "Myers",
        similar::Algorithm::Patience => "Patience",
        similar::Algorithm::Lcs => "Lcs",
    }
}

pub const ALGS: [similar::Algorithm; 3] = [
    similar::Algorithm::Myers,
    similar::Algorithm::Patience,
    similar::Algorithm::Lcs,
];

pub fn alg_from_name(s: &str) -> Option<similar::Algorithm> {
    ALGS.iter().copied().find(|a| alg_name(*a) == s)
}
