//! Parallel exhaustive explorer, verdict bookkeeping, evidence and replay files.
//!
//! A check hands the engine a number of shards and a closure that enumerates
//! every case of one shard, in a fixed order, reporting each case to its
//! per-worker accumulator.  Nothing here samples: a shard is either fully
//! enumerated or (after the first unattributed violation) abandoned, and the
//! evidence says which.

use serde_json::{json, Map, Value};
use std::cell::RefCell;
use std::collections::{BTreeMap, HashSet};
use std::panic::{catch_unwind, AssertUnwindSafe};
use std::sync::atomic::{AtomicU64, AtomicUsize, Ordering};
use std::sync::Mutex;
use std::time::Instant;

#[derive(Clone, Copy, PartialEq, Eq, Debug)]
pub enum Tier {
    Quick,
    Thorough,
}

impl Tier {
    pub fn name(self) -> &'static str {
        match self {
            Tier::Quick => "quick",
            Tier::Thorough => "thorough",
        }
    }
    /// picks the quick or the thorough bound
    pub fn pick<T>(self, quick: T, thorough: T) -> T {
        match self {
            Tier::Quick => quick,
            Tier::Thorough => thorough,
        }
    }
}

#[derive(Clone, Debug)]
pub struct RunCfg {
    pub prop: String,
    pub tier: Tier,
    pub seed: u64,
    pub threads: usize,
    pub verif_dir: String,
    /// safety net only; bounds are constants, not budgets
    pub wall_cap_s: f64,
}

pub type Key = (u64, u64);

#[derive(Clone, Debug)]
pub struct Violation {
    pub key: Key,
    pub case: Value,
    pub complaint: String,
}

#[derive(Clone, Debug, Default)]
pub struct Known {
    pub count: u64,
    pub smallest: Option<(Key, String)>,
}

const OUTCOME_CAP: usize = 1 << 16;
const SAMPLE_CAP: usize = 4;

/// Per-worker accumulator.
#[derive(Default)]
pub struct Acc {
    pub evals: u64,
    pub nontrivial: u64,
    pub transitions: u64,
    pub outcomes: HashSet<u64>,
    pub counters: BTreeMap<&'static str, u64>,
    pub maxima: BTreeMap<&'static str, (f64, String)>,
    pub samples: Vec<(Key, Value)>,
    pub violation: Option<Violation>,
    pub violations_seen: u64,
    pub known: BTreeMap<String, Known>,
    cur_shard: u64,
    case_no: u64,
    stop_shard: bool,
}

impl Acc {
    #[inline]
    pub fn key(&self) -> Key {
        (self.cur_shard, self.case_no)
    }

    /// one executed case that held
    #[inline]
    pub fn ok(&mut self, nontrivial: bool, transitions: u64, fingerprint: u64) {
        self.evals += 1;
        self.case_no += 1;
        self.nontrivial += nontrivial as u64;
        self.transitions += transitions;
        if self.outcomes.len() < OUTCOME_CAP {
            self.outcomes.insert(fingerprint);
        }
    }

    #[inline]
    pub fn count(&mut self, name: &'static str, n: u64) {
        *self.counters.entry(name).or_insert(0) += n;
    }

    #[inline]
    pub fn max(&mut self, name: &'static str, v: f64, witness: impl FnOnce() -> String) {
        match self.maxima.get(name) {
            Some((old, _)) if *old >= v => {}
            _ => {
                self.maxima.insert(name, (v, witness()));
            }
        }
    }

    /// keep a few written-out cases (the first ones of the first shards seen by this worker
    /// and then one every 2^k cases so that large cases are represented as well)
    #[inline]
    pub fn want_sample(&self) -> bool {
        let n = self.evals;
        self.samples.len() < SAMPLE_CAP && (n < 2 || (n & (n - 1)) == 0 && n >= 1024)
    }

    pub fn sample(&mut self, v: Value) {
        if self.samples.len() < SAMPLE_CAP {
            let k = self.key();
            self.samples.push((k, v));
        }
    }

    /// a case that fails and that no known finding explains
    pub fn violation(&mut self, mk: impl FnOnce() -> (Value, String)) {
        self.evals += 1;
        self.violations_seen += 1;
        let key = self.key();
        self.case_no += 1;
        if self.violation.as_ref().map_or(true, |v| key < v.key) {
            let (case, complaint) = mk();
            self.violation = Some(Violation {
                key,
                case,
                complaint,
            });
        }
        self.stop_shard = true;
    }

    /// a failing case attributed to a listed known finding
    pub fn known(&mut self, id: &str, mk: impl FnOnce() -> String) {
        self.evals += 1;
        let key = self.key();
        self.case_no += 1;
        let e = self.known.entry(id.to_string()).or_default();
        e.count += 1;
        if e.smallest.as_ref().map_or(true, |(k, _)| key < *k) {
            e.smallest = Some((key, mk()));
        }
    }

    /// true once an unattributed violation was found in the current shard: the rest of the
    /// shard cannot contain a smaller counterexample
    #[inline]
    pub fn stop(&self) -> bool {
        self.stop_shard
    }

    fn merge(&mut self, o: Acc) {
        self.evals += o.evals;
        self.nontrivial += o.nontrivial;
        self.transitions += o.transitions;
        for f in o.outcomes {
            if self.outcomes.len() < OUTCOME_CAP {
                self.outcomes.insert(f);
            }
        }
        for (k, v) in o.counters {
            *self.counters.entry(k).or_insert(0) += v;
        }
        for (k, (v, w)) in o.maxima {
            match self.maxima.get(k) {
                Some((old, _)) if *old >= v => {}
                _ => {
                    self.maxima.insert(k, (v, w));
                }
            }
        }
        self.samples.extend(o.samples);
        self.violations_seen += o.violations_seen;
        if let Some(v) = o.violation {
            if self.violation.as_ref().map_or(true, |m| v.key < m.key) {
                self.violation = Some(v);
            }
        }
        for (id, k) in o.known {
            let e = self.known.entry(id).or_default();
            e.count += k.count;
            if let Some((key, s)) = k.smallest {
                if e.smallest.as_ref().map_or(true, |(k2, _)| key < *k2) {
                    e.smallest = Some((key, s));
                }
            }
        }
    }
}

pub struct Explored {
    pub acc: Acc,
    pub shards_total: usize,
    pub shards_done: usize,
    pub capped: bool,
    pub wall_s: f64,
}

// ---- panic capture ------------------------------------------------------------------

thread_local! {
    static LAST_PANIC: RefCell<Option<String>> = RefCell::new(None);
    static QUIET: std::cell::Cell<bool> = std::cell::Cell::new(false);
}

pub fn install_panic_hook() {
    let default = std::panic::take_hook();
    std::panic::set_hook(Box::new(move |info| {
        if QUIET.with(|q| q.get()) {
            let msg = if let Some(s) = info.payload().downcast_ref::<&str>() {
                s.to_string()
            } else if let Some(s) = info.payload().downcast_ref::<String>() {
                s.clone()
            } else {
                "panic".to_string()
            };
            let loc = info
                .location()
                .map(|l| format!(" at {}:{}", l.file(), l.line()))
                .unwrap_or_default();
            LAST_PANIC.with(|p| *p.borrow_mut() = Some(format!("{}{}", msg, loc)));
        } else {
            default(info);
        }
    }));
}

/// Runs a call into the library under test.  A panic inside is a *verdict* (returned as Err
/// with its message), never a harness failure.  All thread-local hooks of `similar::verif`
/// are disarmed afterwards so one case cannot leak an armed clock or seed into the next.
pub fn subject<T>(f: impl FnOnce() -> T) -> Result<T, String> {
    QUIET.with(|q| q.set(true));
    let r = catch_unwind(AssertUnwindSafe(f));
    QUIET.with(|q| q.set(false));
    crate::instr::disarm_all();
    match r {
        Ok(v) => Ok(v),
        Err(_) => Err(LAST_PANIC
            .with(|p| p.borrow_mut().take())
            .unwrap_or_else(|| "panic".into())),
    }
}

// ---- exploration -------------------------------------------------------------------

/// Runs `f(shard, acc)` for every shard on `cfg.threads` workers.  Shards are handed out in
/// increasing order; once an unattributed violation was found in shard s, shards > s are
/// skipped (they cannot contain a smaller counterexample), shards < s still complete.
/// `VERIF_SHARD_MOD=k/m`: explore only the shards whose index is k modulo m (used by the
/// supervisor in main.rs to find the part of a run that kills the process).
fn shard_mod() -> Option<(usize, usize)> {
    static M: std::sync::OnceLock<Option<(usize, usize)>> = std::sync::OnceLock::new();
    *M.get_or_init(|| {
        let v = std::env::var("VERIF_SHARD_MOD").ok()?;
        let (k, m) = v.split_once('/')?;
        let (k, m) = (k.parse::<usize>().ok()?, m.parse::<usize>().ok()?);
        if m == 0 {
            None
        } else {
            Some((k % m, m))
        }
    })
}

/// `VERIF_ONLY=ord:shard`: run only shard `shard` of the `ord`-th exploration of this process
/// (replay of a hang).
fn only() -> Option<(usize, usize)> {
    static M: std::sync::OnceLock<Option<(usize, usize)>> = std::sync::OnceLock::new();
    *M.get_or_init(|| {
        let v = std::env::var("VERIF_ONLY").ok()?;
        let (a, b) = v.split_once(':')?;
        Some((a.parse().ok()?, b.parse().ok()?))
    })
}

/// seconds one shard may run before the watchdog declares the exploration hung
pub fn hang_limit_s(tier: Tier) -> u64 {
    std::env::var("VERIF_HANG_LIMIT_S").ok().and_then(|s| s.parse().ok()).unwrap_or(match tier {
        Tier::Quick => 300,
        Tier::Thorough => 3600,
    })
}

pub fn hang_file(cfg: &RunCfg) -> String {
    format!("{}/harness/target/hang-{}.json", cfg.verif_dir, cfg.prop)
}

static EXPLORATION_ORDINAL: AtomicUsize = AtomicUsize::new(0);

pub fn explore<F>(cfg: &RunCfg, nshards: usize, f: F) -> Explored
where
    F: Fn(usize, &mut Acc) + Sync,
{
    let t0 = Instant::now();
    let ord = EXPLORATION_ORDINAL.fetch_add(1, Ordering::Relaxed);
    let only_shard: Option<usize> = match only() {
        Some((o, sh)) if o == ord => Some(sh),
        Some(_) => {
            return Explored { acc: Acc::default(), shards_total: nshards, shards_done: nshards, capped: false, wall_s: 0.0 };
        }
        None => None,
    };
    let next = AtomicUsize::new(0);
    let min_bad = AtomicUsize::new(usize::MAX);
    let done = AtomicUsize::new(0);
    let capped = AtomicU64::new(0);
    let merged = Mutex::new(Acc::default());
    let nthreads = cfg.threads.max(1).min(nshards.max(1));
    // watchdog state: which shard each worker is in and since when (ms since t0, 0 = idle)
    let slots: Vec<(AtomicUsize, AtomicU64)> = (0..nthreads).map(|_| (AtomicUsize::new(usize::MAX), AtomicU64::new(0))).collect();
    let finished = AtomicUsize::new(0);
    let limit = hang_limit_s(cfg.tier);
    std::thread::scope(|s| {
        // a shard that does not come back is a diff that never delivers its result: report it
        // (exit code 3, picked up by the supervisor) instead of hanging for ever
        s.spawn(|| loop {
            std::thread::sleep(std::time::Duration::from_millis(250));
            if finished.load(Ordering::Relaxed) >= nthreads {
                break;
            }
            let now = t0.elapsed().as_millis() as u64;
            for (sh, since) in slots.iter() {
                let st = since.load(Ordering::Relaxed);
                let shard = sh.load(Ordering::Relaxed);
                if st != 0 && shard != usize::MAX && now.saturating_sub(st) > limit * 1000 {
                    let body = json!({"exploration": ord, "shard": shard, "nshards": nshards, "limit_s": limit});
                    let _ = std::fs::write(hang_file(cfg), body.to_string());
                    eprintln!("watchdog: shard {} of exploration #{} has been running for more than {} s", shard, ord, limit);
                    std::process::exit(3);
                }
            }
        });
        for w in 0..nthreads {
            let slots = &slots;
            let finished = &finished;
            let next = &next;
            let min_bad = &min_bad;
            let done = &done;
            let capped = &capped;
            let merged = &merged;
            let f = &f;
            s.spawn(move || {
                crate::instr::disarm_all();
                let mut acc = Acc::default();
                loop {
                    let i = next.fetch_add(1, Ordering::Relaxed);
                    if i >= nshards {
                        break;
                    }
                    if let Some(sh) = only_shard {
                        if i != sh {
                            done.fetch_add(1, Ordering::Relaxed);
                            continue;
                        }
                    }
                    if i > min_bad.load(Ordering::Relaxed) {
                        continue;
                    }
                    if let Some((k, m)) = shard_mod() {
                        if i % m != k {
                            done.fetch_add(1, Ordering::Relaxed);
                            continue;
                        }
                    }
                    if t0.elapsed().as_secs_f64() > cfg.wall_cap_s {
                        capped.store(1, Ordering::Relaxed);
                        continue;
                    }
                    acc.cur_shard = i as u64;
                    acc.case_no = 0;
                    acc.stop_shard = false;
                    slots[w].0.store(i, Ordering::Relaxed);
                    slots[w].1.store((t0.elapsed().as_millis() as u64).max(1), Ordering::Relaxed);
                    f(i, &mut acc);
                    slots[w].1.store(0, Ordering::Relaxed);
                    if acc.stop_shard {
                        min_bad.fetch_min(i, Ordering::Relaxed);
                    } else {
                        done.fetch_add(1, Ordering::Relaxed);
                    }
                }
                merged.lock().unwrap().merge(acc);
                finished.fetch_add(1, Ordering::Relaxed);
            });
        }
    });
    let mut acc = merged.into_inner().unwrap();
    acc.samples.sort_by_key(|(k, _)| *k);
    // keep a spread: first two and last two
    if acc.samples.len() > 6 {
        let n = acc.samples.len();
        let mut keep = vec![];
        keep.extend(acc.samples[..3].iter().cloned());
        keep.extend(acc.samples[n - 3..].iter().cloned());
        acc.samples = keep;
    }
    Explored {
        acc,
        shards_total: nshards,
        shards_done: done.load(Ordering::Relaxed),
        capped: capped.load(Ordering::Relaxed) != 0,
        wall_s: t0.elapsed().as_secs_f64(),
    }
}

// ---- results of one check (possibly several explorations) --------------------------------

pub struct Part {
    pub name: String,
    pub bounds: Value,
    pub ex: Explored,
}

pub struct CheckReport {
    pub level: &'static str,
    pub rule: String,
    pub assumptions: Vec<String>,
    pub parts: Vec<Part>,
    /// extra keys for coverage (states/transitions/traces_validated_against_impl, notes …)
    pub extra: Map<String, Value>,
}

impl CheckReport {
    pub fn new(level: &'static str, rule: &str) -> Self {
        CheckReport {
            level,
            rule: format!(
                "{} Parts named large-* / rich-* / long-* / huge-* / positions-* / lcs-beyond-* (where present) are ENUMERATED families of big or unusual inputs run through the same oracle: complete over their fixed list, not exhaustive over all inputs of that size; the 'exhaustive' flag refers to complete enumeration of every listed space.",
                rule
            ),
            assumptions: vec![],
            parts: vec![],
            extra: Map::new(),
        }
    }
    pub fn assume(&mut self, s: &str) {
        self.assumptions.push(s.to_string());
    }
    pub fn part(&mut self, name: &str, bounds: Value, ex: Explored) {
        eprintln!(
            "[{}] {} cases, {} non-trivial, {} transitions, {} outcomes, shards {}/{}, {:.1}s{}",
            name,
            ex.acc.evals,
            ex.acc.nontrivial,
            ex.acc.transitions,
            ex.acc.outcomes.len(),
            ex.shards_done,
            ex.shards_total,
            ex.wall_s,
            if ex.acc.violation.is_some() {
                "  ** VIOLATION **"
            } else {
                ""
            }
        );
        self.parts.push(Part {
            name: name.to_string(),
            bounds,
            ex,
        });
    }
    pub fn has_violation(&self) -> bool {
        self.parts.iter().any(|p| p.ex.acc.violation.is_some())
    }
}

/// Listed known findings (committed file, read-only at run time).
pub struct KnownFindings {
    pub entries: Vec<Value>,
}

impl KnownFindings {
    pub fn load(verif_dir: &str) -> KnownFindings {
        let p = format!("{}/known_findings.json", verif_dir);
        let entries = std::fs::read_to_string(&p)
            .ok()
            .and_then(|s| serde_json::from_str::<Value>(&s).ok())
            .and_then(|v| v.get("known").and_then(|k| k.as_array().cloned()))
            .unwrap_or_default();
        KnownFindings { entries }
    }
    /// is finding `id` listed for property `prop`?
    pub fn listed(&self, prop: &str, id: &str) -> bool {
        self.entries.iter().any(|e| {
            e.get("id").and_then(|x| x.as_str()) == Some(id)
                && e.get("properties")
                    .and_then(|p| p.as_array())
                    .map_or(false, |a| a.iter().any(|x| x.as_str() == Some(prop)))
        })
    }
    pub fn what(&self, id: &str) -> String {
        self.entries
            .iter()
            .find(|e| e.get("id").and_then(|x| x.as_str()) == Some(id))
            .and_then(|e| e.get("what").and_then(|x| x.as_str()))
            .unwrap_or("")
            .to_string()
    }
}

/// Writes evidence, replay file and the verdict lines; returns the process exit code.
pub fn conclude(cfg: &RunCfg, rep: CheckReport) -> i32 {
    let mut evals = 0u64;
    let mut nontriv = 0u64;
    let mut transitions = 0u64;
    let mut outcomes = 0usize;
    let mut exhaustive = true;
    let mut wall = 0.0;
    let mut samples: Vec<Value> = vec![];
    let mut parts_json = vec![];
    let mut violations_total = 0u64;
    let mut first_violation: Option<(usize, Violation)> = None;
    let mut known_all: BTreeMap<String, Known> = BTreeMap::new();
    for (pi, p) in rep.parts.iter().enumerate() {
        let a = &p.ex.acc;
        evals += a.evals;
        nontriv += a.nontrivial;
        transitions += a.transitions;
        outcomes += a.outcomes.len();
        wall += p.ex.wall_s;
        let part_exh = !p.ex.capped && p.ex.shards_done == p.ex.shards_total;
        exhaustive &= part_exh;
        violations_total += a.violations_seen;
        for (_, s) in a.samples.iter().take(3) {
            samples.push(json!({"part": p.name, "case": s}));
        }
        if let Some(v) = &a.violation {
            if first_violation.is_none() {
                first_violation = Some((pi, v.clone()));
            }
        }
        for (id, k) in &a.known {
            let e = known_all.entry(id.clone()).or_default();
            e.count += k.count;
            if e.smallest.is_none() {
                e.smallest = k.smallest.clone();
            }
        }
        let maxima: Map<String, Value> = a
            .maxima
            .iter()
            .map(|(k, (v, w))| (k.to_string(), json!({"value": v, "witness": w})))
            .collect();
        let counters: Map<String, Value> = a
            .counters
            .iter()
            .map(|(k, v)| (k.to_string(), json!(v)))
            .collect();
        parts_json.push(json!({
            "name": p.name,
            "bounds": p.bounds,
            "evaluations": a.evals,
            "distinct_nontrivial": a.nontrivial,
            "transitions": a.transitions,
            "distinct_outcomes_observed": a.outcomes.len(),
            "distinct_outcomes_cap": OUTCOME_CAP,
            "shards_total": p.ex.shards_total,
            "shards_completed": p.ex.shards_done,
            "exhaustive": part_exh,
            "wall_cap_hit": p.ex.capped,
            "wall_s": (p.ex.wall_s * 1000.0).round() / 1000.0,
            "maxima": maxima,
            "counters": counters,
        }));
    }

    let kf = KnownFindings::load(&cfg.verif_dir);
    let mut known_json = vec![];
    let mut lines = vec![];
    for (id, k) in &known_all {
        let smallest = k
            .smallest
            .as_ref()
            .map(|(_, s)| s.clone())
            .unwrap_or_default();
        lines.push(format!(
            "KNOWN-FINDING: property={} {} [{}] ({} cases attributed on this run; smallest: {})",
            cfg.prop,
            kf.what(id),
            id,
            k.count,
            smallest
        ));
        known_json.push(json!({"id": id, "cases": k.count, "smallest": smallest}));
    }

    let mut coverage = Map::new();
    coverage.insert("evaluations".into(), json!(evals));
    coverage.insert("distinct_nontrivial".into(), json!(nontriv));
    coverage.insert("rule".into(), json!(rep.rule));
    if samples.is_empty() {
        // a report that stopped at its first case (a violation before anything else ran)
        if let Some((pi, v)) = &first_violation {
            samples.push(json!({"part": rep.parts[*pi].name, "case": v.case}));
        }
    }
    coverage.insert("samples".into(), json!(samples));
    coverage.insert("exhaustive".into(), json!(exhaustive));
    coverage.insert("hook_callbacks_or_ops_processed".into(), json!(transitions));
    coverage.insert("distinct_outcomes_observed".into(), json!(outcomes));
    coverage.insert("parts".into(), json!(parts_json));
    coverage.insert("known_findings_attributed".into(), json!(known_json));
    for (k, v) in rep.extra.iter() {
        coverage.insert(k.clone(), v.clone());
    }
    let evidence = json!({
        "property_id": cfg.prop,
        "tier": cfg.tier.name(),
        "seed": cfg.seed,
        "level": rep.level,
        "coverage": coverage,
        "assumptions": rep.assumptions,
        "wall_s": (wall * 1000.0).round() / 1000.0,
        "violations": violations_total,
    });
    let ev_dir = format!("{}/evidence", cfg.verif_dir);
    let _ = std::fs::create_dir_all(&ev_dir);
    let ev_path = match std::env::var("VERIF_EVIDENCE_PATH") {
        Ok(p) => p,
        Err(_) => format!("{}/{}.json", ev_dir, cfg.prop),
    };
    if let Err(e) = std::fs::write(&ev_path, serde_json::to_string_pretty(&evidence).unwrap()) {
        eprintln!("cannot write evidence {}: {}", ev_path, e);
        return 2;
    }

    println!(
        "property={} tier={} evaluations={} distinct_nontrivial={} outcomes={} exhaustive={} wall_s={:.1}",
        cfg.prop,
        cfg.tier.name(),
        evals,
        nontriv,
        outcomes,
        exhaustive,
        wall
    );
    for l in &lines {
        println!("{}", l);
    }
    if let Some((pi, v)) = first_violation {
        let dir = format!("{}/replays/{}", cfg.verif_dir, cfg.prop);
        let _ = std::fs::create_dir_all(&dir);
        // (a build variant, e.g. ".nounicode", is part of the file name: run.sh picks the
        // matching binary for the replay)
        let variant = std::env::var("VERIF_BUILD_VARIANT").unwrap_or_default();
        let path = format!("{}/{}-{}{}.json", dir, cfg.tier.name(), rep.parts[pi].name, variant);
        let body = json!({
            "property_id": cfg.prop,
            "tier": cfg.tier.name(),
            "part": rep.parts[pi].name,
            "case": v.case,
            "complaint": v.complaint,
            "failing_cases_seen_before_stopping": violations_total,
            "replay": format!("./run.sh {} --replay {}", cfg.prop, path),
        });
        let _ = std::fs::write(&path, serde_json::to_string_pretty(&body).unwrap());
        println!("complaint: {}", v.complaint);
        println!("case: {}", v.case);
        println!("VIOLATION property={} replay={}", cfg.prop, path);
        return 1;
    }
    if nontriv < 2 || evals == 0 {
        eprintln!("vacuous run: no non-trivial case was explored");
        return 2;
    }
    0
}

/// FNV-1a style fingerprint helper
#[derive(Clone, Copy)]
pub struct Fp(pub u64);
impl Fp {
    #[inline]
    pub fn new() -> Fp {
        Fp(0xcbf29ce484222325)
    }
    #[inline]
    pub fn add(&mut self, v: u64) {
        self.0 = (self.0 ^ v).wrapping_mul(0x100000001b3).rotate_left(17);
    }
}
