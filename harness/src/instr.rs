//! Instrumentation owned by the harness: recording / failing hooks, a counting element type,
//! a window `Index` that refuses reads outside its range, and guards for the seams in
//! `similar::verif`.

use similar::algorithms::DiffHook;
use std::cell::Cell;
use std::ops::Index;
use std::rc::Rc;

#[derive(Clone, Copy, PartialEq, Eq, Debug, Hash)]
pub enum Call {
    /// equal(old_index, new_index, len)
    Eq(usize, usize, usize),
    /// delete(old_index, old_len, new_index)
    Del(usize, usize, usize),
    /// insert(old_index, new_index, new_len)
    Ins(usize, usize, usize),
    /// replace(old_index, old_len, new_index, new_len)
    Rep(usize, usize, usize, usize),
    Fin,
}

impl Call {
    pub fn shifted(self, d_old: usize, d_new: usize) -> Call {
        match self {
            Call::Eq(o, n, l) => Call::Eq(o + d_old, n + d_new, l),
            Call::Del(o, l, n) => Call::Del(o + d_old, l, n + d_new),
            Call::Ins(o, n, l) => Call::Ins(o + d_old, n + d_new, l),
            Call::Rep(o, ol, n, nl) => Call::Rep(o + d_old, ol, n + d_new, nl),
            Call::Fin => Call::Fin,
        }
    }
    pub fn fp(self) -> u64 {
        match self {
            Call::Eq(a, b, c) => 1 + 8 * (a as u64 + 64 * (b as u64 + 64 * c as u64)),
            Call::Del(a, b, c) => 2 + 8 * (a as u64 + 64 * (b as u64 + 64 * c as u64)),
            Call::Ins(a, b, c) => 3 + 8 * (a as u64 + 64 * (b as u64 + 64 * c as u64)),
            Call::Rep(a, b, c, d) => {
                4 + 8 * (a as u64 + 64 * (b as u64 + 64 * (c as u64 + 64 * d as u64)))
            }
            Call::Fin => 5,
        }
    }
}

pub fn calls_to_string(c: &[Call]) -> String {
    let mut s = String::new();
    for (i, c) in c.iter().enumerate() {
        if i > 0 {
            s.push(' ');
        }
        match *c {
            Call::Eq(o, n, l) => s.push_str(&format!("equal({},{},{})", o, n, l)),
            Call::Del(o, l, n) => s.push_str(&format!("delete({},{},{})", o, l, n)),
            Call::Ins(o, n, l) => s.push_str(&format!("insert({},{},{})", o, n, l)),
            Call::Rep(o, ol, n, nl) => s.push_str(&format!("replace({},{},{},{})", o, ol, n, nl)),
            Call::Fin => s.push_str("finish"),
        }
    }
    s
}

/// Recording hook that overrides `replace`.  With `fail_at = Some(k)` the k-th call (0-based,
/// finish included) returns `Err(k)`; later calls are still recorded (and answered Ok) so the
/// oracle can see whether the library kept calling.
#[derive(Default, Debug, Clone)]
pub struct Rec {
    pub calls: Vec<Call>,
    pub fail_at: Option<usize>,
}

impl Rec {
    pub fn new() -> Rec {
        Rec::default()
    }
    pub fn failing(k: Option<usize>) -> Rec {
        Rec {
            calls: Vec::new(),
            fail_at: k,
        }
    }
    #[inline]
    fn push(&mut self, c: Call) -> Result<(), usize> {
        let idx = self.calls.len();
        self.calls.push(c);
        if self.fail_at == Some(idx) {
            Err(idx)
        } else {
            Ok(())
        }
    }
}

impl DiffHook for Rec {
    type Error = usize;
    fn equal(&mut self, o: usize, n: usize, l: usize) -> Result<(), usize> {
        self.push(Call::Eq(o, n, l))
    }
    fn delete(&mut self, o: usize, l: usize, n: usize) -> Result<(), usize> {
        self.push(Call::Del(o, l, n))
    }
    fn insert(&mut self, o: usize, n: usize, l: usize) -> Result<(), usize> {
        self.push(Call::Ins(o, n, l))
    }
    fn replace(&mut self, o: usize, ol: usize, n: usize, nl: usize) -> Result<(), usize> {
        self.push(Call::Rep(o, ol, n, nl))
    }
    fn finish(&mut self) -> Result<(), usize> {
        self.push(Call::Fin)
    }
}

/// Recording hook that does NOT override `replace` (exercises the trait's default).
#[derive(Default, Debug, Clone)]
pub struct RecNoReplace {
    pub calls: Vec<Call>,
    pub fail_at: Option<usize>,
}

impl RecNoReplace {
    pub fn failing(k: Option<usize>) -> RecNoReplace {
        RecNoReplace {
            calls: Vec::new(),
            fail_at: k,
        }
    }
    #[inline]
    fn push(&mut self, c: Call) -> Result<(), usize> {
        let idx = self.calls.len();
        self.calls.push(c);
        if self.fail_at == Some(idx) {
            Err(idx)
        } else {
            Ok(())
        }
    }
}

impl DiffHook for RecNoReplace {
    type Error = usize;
    fn equal(&mut self, o: usize, n: usize, l: usize) -> Result<(), usize> {
        self.push(Call::Eq(o, n, l))
    }
    fn delete(&mut self, o: usize, l: usize, n: usize) -> Result<(), usize> {
        self.push(Call::Del(o, l, n))
    }
    fn insert(&mut self, o: usize, n: usize, l: usize) -> Result<(), usize> {
        self.push(Call::Ins(o, n, l))
    }
    fn finish(&mut self) -> Result<(), usize> {
        self.push(Call::Fin)
    }
}

// ---- recording hooks that stay reachable while wrapped (reuse of one hook stack) ----------

/// Handle on a recording hook: the harness keeps a clone while the hook itself is owned by
/// an adapter stack, so the recording can be reset between two diffs run through the same
/// stack object.
#[derive(Default, Debug, Clone)]
pub struct SharedRec(pub Rc<std::cell::RefCell<Rec>>);

impl SharedRec {
    pub fn new() -> SharedRec {
        SharedRec::default()
    }
    /// forget the recorded calls; the next diff's call `k` fails
    pub fn reset(&self, k: Option<usize>) {
        let mut r = self.0.borrow_mut();
        r.calls.clear();
        r.fail_at = k;
    }
    pub fn calls(&self) -> Vec<Call> {
        self.0.borrow().calls.clone()
    }
}

impl DiffHook for SharedRec {
    type Error = usize;
    fn equal(&mut self, o: usize, n: usize, l: usize) -> Result<(), usize> {
        self.0.borrow_mut().push(Call::Eq(o, n, l))
    }
    fn delete(&mut self, o: usize, l: usize, n: usize) -> Result<(), usize> {
        self.0.borrow_mut().push(Call::Del(o, l, n))
    }
    fn insert(&mut self, o: usize, n: usize, l: usize) -> Result<(), usize> {
        self.0.borrow_mut().push(Call::Ins(o, n, l))
    }
    fn replace(&mut self, o: usize, ol: usize, n: usize, nl: usize) -> Result<(), usize> {
        self.0.borrow_mut().push(Call::Rep(o, ol, n, nl))
    }
    fn finish(&mut self) -> Result<(), usize> {
        self.0.borrow_mut().push(Call::Fin)
    }
}

/// Like [`SharedRec`] but without an override of `replace`.
#[derive(Default, Debug, Clone)]
pub struct SharedRecNoReplace(pub SharedRec);

impl DiffHook for SharedRecNoReplace {
    type Error = usize;
    fn equal(&mut self, o: usize, n: usize, l: usize) -> Result<(), usize> {
        (self.0).0.borrow_mut().push(Call::Eq(o, n, l))
    }
    fn delete(&mut self, o: usize, l: usize, n: usize) -> Result<(), usize> {
        (self.0).0.borrow_mut().push(Call::Del(o, l, n))
    }
    fn insert(&mut self, o: usize, n: usize, l: usize) -> Result<(), usize> {
        (self.0).0.borrow_mut().push(Call::Ins(o, n, l))
    }
    fn finish(&mut self) -> Result<(), usize> {
        (self.0).0.borrow_mut().push(Call::Fin)
    }
}

// ---- window Index ---------------------------------------------------------------------

/// An indexable view that panics when read outside `lo..hi`.
pub struct Win<'a, T> {
    pub data: &'a [T],
    pub lo: usize,
    pub hi: usize,
}

impl<'a, T> Index<usize> for Win<'a, T> {
    type Output = T;
    #[inline]
    fn index(&self, i: usize) -> &T {
        if i < self.lo || i >= self.hi {
            panic!(
                "read of index {} outside the requested range {}..{}",
                i, self.lo, self.hi
            );
        }
        &self.data[i]
    }
}

// ---- counting element ----------------------------------------------------------------

thread_local! {
    static CMP: Cell<u64> = Cell::new(0);
}

pub fn cmp_count() -> u64 {
    CMP.with(|c| c.get())
}
pub fn cmp_reset() {
    CMP.with(|c| c.set(0));
}

/// Element whose `==` counts itself.
#[derive(Clone, Copy, Debug, Hash, Eq, PartialOrd, Ord)]
pub struct Cnt(pub u32);

impl PartialEq for Cnt {
    #[inline]
    fn eq(&self, o: &Cnt) -> bool {
        CMP.with(|c| c.set(c.get() + 1));
        self.0 == o.0
    }
}

// ---- seams ------------------------------------------------------------------------------

pub fn disarm_all() {
    similar::verif::set_clock(None);
    similar::verif::set_now(None);
    similar::verif::set_swap_repair(false);
    similar::verif::set_hash_seed(Some(0));
    similar::verif::set_scramble(None);
}

/// State of one armed virtual clock.
#[derive(Default)]
pub struct ClockState {
    /// probes answered so far
    pub probes: Cell<u64>,
    /// comparison counter value when the clock first answered "exceeded"
    pub cmp_at_expiry: Cell<Option<u64>>,
}

/// Arms the virtual clock: probe number i (0-based) answers "exceeded" iff i >= expire_at
/// (monotone, like `Instant`).  `expire_at = u64::MAX` is the never-expiring clock.
pub fn arm_clock(expire_at: u64) -> Rc<ClockState> {
    let st = Rc::new(ClockState::default());
    let st2 = st.clone();
    similar::verif::set_clock(Some(Box::new(move |_deadline| {
        let i = st2.probes.get();
        st2.probes.set(i + 1);
        let exceeded = i >= expire_at;
        if exceeded && st2.cmp_at_expiry.get().is_none() {
            st2.cmp_at_expiry.set(Some(cmp_count()));
        }
        exceeded
    })));
    st
}

/// A deadline value to pass along with an armed clock.  Its actual value is irrelevant
/// (the virtual clock answers), but it is far in the future so that an unplumbed or
/// unhooked path that falls back to the real clock never expires by accident.
pub fn some_deadline() -> Option<std::time::Instant> {
    Some(std::time::Instant::now() + std::time::Duration::from_secs(86_400))
}

// ---- heterogeneous element types ------------------------------------------------------------

/// Old-side element type of the heterogeneous pair: `Hi: PartialEq<Lo>`, and the two derive
/// `Hash` over different integer widths, so equal items hash differently across the sides.
#[derive(Hash, PartialEq, Eq, PartialOrd, Ord, Clone, Copy, Debug)]
pub struct Lo(pub u32);

/// New-side element type of the heterogeneous pair.
#[derive(Hash, PartialEq, Eq, PartialOrd, Ord, Clone, Copy, Debug)]
pub struct Hi(pub u64);

impl PartialEq<Lo> for Hi {
    fn eq(&self, o: &Lo) -> bool {
        self.0 == o.0 as u64
    }
}

// ---- virtual TIME (value-aware clock) --------------------------------------------------------

thread_local! {
    static ORIGIN: std::time::Instant = std::time::Instant::now() + std::time::Duration::from_secs(10_000);
}

/// origin of the virtual time line on this thread (far enough in the real future that an
/// unhooked comparison with the real clock never expires)
pub fn vt_origin() -> std::time::Instant {
    ORIGIN.with(|o| *o)
}

/// the instant "tick t" of the virtual time line (ticks are seconds; `half` adds 500 ms)
pub fn vt(t: u64, half: bool) -> std::time::Instant {
    vt_origin() + std::time::Duration::from_millis(t * 1000 + if half { 500 } else { 0 })
}

/// Arms the value-aware virtual clock: the i-th deadline probe happens at virtual instant
/// `vt(i)`, and "exceeded" is answered by comparing that instant with the deadline actually
/// passed down to the probe.  "now" (used to turn a relative timeout into a deadline) is the
/// virtual instant of the next probe.  A deadline of `vt(k) - 500 ms` therefore expires exactly
/// at probe k.
pub fn arm_virtual_time() -> Rc<ClockState> {
    let st = Rc::new(ClockState::default());
    let st2 = st.clone();
    similar::verif::set_clock(Some(Box::new(move |deadline| {
        let i = st2.probes.get();
        st2.probes.set(i + 1);
        vt(i, false) > deadline
    })));
    let st3 = st.clone();
    similar::verif::set_now(Some(Box::new(move || vt(st3.probes.get(), false))));
    st
}

// ---- a caller-side text type whose equality is not byte equality ---------------------------

/// Caller-side text types: `DiffableStr` is a public trait, so a diff over such a type has to
/// go by the type's own Eq / Hash / Ord, never by its bytes.
///   MODE 0 (`Ci`): ASCII-case-insensitive equality, ordering and hashing;
///   MODE 1 (`Ch`): byte-wise equality with a legal but COARSE hash (the length only), so that
///                  many unequal tokens share a hash value;
///   MODE 2 (`Wc`): byte-wise equality, but `len()` and `slice()` count CHARACTERS, not bytes
///                  (on valid UTF-8; the trait only says "the length of the string").
#[repr(transparent)]
#[derive(Debug)]
pub struct Wrap<const MODE: u8>(pub [u8]);
pub type Ci = Wrap<0>;
pub type Ch = Wrap<1>;
pub type Wc = Wrap<2>;

impl<const MODE: u8> Wrap<MODE> {
    pub fn new(b: &[u8]) -> &Wrap<MODE> {
        // SAFETY: Wrap is a transparent wrapper of [u8]
        unsafe { &*(b as *const [u8] as *const Wrap<MODE>) }
    }
    fn folded(&self) -> impl Iterator<Item = u8> + '_ {
        self.0.iter().map(|b| if MODE == 0 { b.to_ascii_lowercase() } else { *b })
    }
}

impl<const MODE: u8> PartialEq for Wrap<MODE> {
    fn eq(&self, other: &Wrap<MODE>) -> bool {
        self.0.len() == other.0.len() && self.folded().eq(other.folded())
    }
}
impl<const MODE: u8> Eq for Wrap<MODE> {}
impl<const MODE: u8> std::hash::Hash for Wrap<MODE> {
    fn hash<H: std::hash::Hasher>(&self, h: &mut H) {
        h.write_usize(self.0.len());
        if MODE != 1 {
            for b in self.folded() {
                h.write_u8(b);
            }
        }
    }
}
impl<const MODE: u8> PartialOrd for Wrap<MODE> {
    fn partial_cmp(&self, other: &Wrap<MODE>) -> Option<std::cmp::Ordering> {
        Some(self.cmp(other))
    }
}
impl<const MODE: u8> Ord for Wrap<MODE> {
    fn cmp(&self, other: &Wrap<MODE>) -> std::cmp::Ordering {
        self.folded().cmp(other.folded())
    }
}

#[derive(Debug, Clone, PartialEq, Eq)]
pub struct WrapBuf<const MODE: u8>(pub Vec<u8>);

impl<const MODE: u8> std::borrow::Borrow<Wrap<MODE>> for WrapBuf<MODE> {
    fn borrow(&self) -> &Wrap<MODE> {
        Wrap::new(&self.0)
    }
}
impl<const MODE: u8> ToOwned for Wrap<MODE> {
    type Owned = WrapBuf<MODE>;
    fn to_owned(&self) -> WrapBuf<MODE> {
        WrapBuf(self.0.to_vec())
    }
}

fn wrap_vec<const MODE: u8>(v: Vec<&[u8]>) -> Vec<&Wrap<MODE>> {
    v.into_iter().map(Wrap::new).collect()
}

impl<const MODE: u8> similar::DiffableStr for Wrap<MODE> {
    fn tokenize_lines(&self) -> Vec<&Wrap<MODE>> {
        wrap_vec(self.0.tokenize_lines())
    }
    fn tokenize_lines_and_newlines(&self) -> Vec<&Wrap<MODE>> {
        wrap_vec(self.0.tokenize_lines_and_newlines())
    }
    fn tokenize_words(&self) -> Vec<&Wrap<MODE>> {
        wrap_vec(self.0.tokenize_words())
    }
    fn tokenize_chars(&self) -> Vec<&Wrap<MODE>> {
        wrap_vec(self.0.tokenize_chars())
    }
    #[cfg(feature = "unicode")]
    fn tokenize_unicode_words(&self) -> Vec<&Wrap<MODE>> {
        wrap_vec(self.0.tokenize_unicode_words())
    }
    #[cfg(feature = "unicode")]
    fn tokenize_graphemes(&self) -> Vec<&Wrap<MODE>> {
        wrap_vec(self.0.tokenize_graphemes())
    }
    fn as_str(&self) -> Option<&str> {
        std::str::from_utf8(&self.0).ok()
    }
    fn to_string_lossy(&self) -> std::borrow::Cow<'_, str> {
        String::from_utf8_lossy(&self.0)
    }
    fn ends_with_newline(&self) -> bool {
        self.0.ends_with_newline()
    }
    fn len(&self) -> usize {
        match (MODE, std::str::from_utf8(&self.0)) {
            (2, Ok(s)) => s.chars().count(),
            _ => self.0.len(),
        }
    }
    fn slice(&self, rng: std::ops::Range<usize>) -> &Wrap<MODE> {
        match (MODE, std::str::from_utf8(&self.0)) {
            (2, Ok(s)) => {
                let at = |k: usize| s.char_indices().nth(k).map(|x| x.0).unwrap_or(s.len());
                Wrap::new(&self.0[at(rng.start)..at(rng.end)])
            }
            _ => Wrap::new(&self.0[rng]),
        }
    }
    fn as_bytes(&self) -> &[u8] {
        &self.0
    }
}

/// Sized element type with byte-wise equality and a coarse hash (parity only).
#[derive(PartialEq, Eq, PartialOrd, Ord, Clone, Copy, Debug)]
pub struct CoarseHash(pub u8);
impl std::hash::Hash for CoarseHash {
    fn hash<H: std::hash::Hasher>(&self, h: &mut H) {
        h.write_u8(self.0 & 1);
    }
}

// ---- further legal-but-unusual instantiations ------------------------------------------------

/// New-side element type whose OWN equality is finer than its equality with the old side's
/// items: two `Tagged` are equal only when value and tag agree (every position has its own tag),
/// while `Tagged == Lo` goes by the value alone.  The diff is defined by the cross-type
/// equality only.
#[derive(Hash, PartialEq, Eq, PartialOrd, Ord, Clone, Copy, Debug)]
pub struct Tagged {
    pub v: u32,
    pub tag: usize,
}

impl PartialEq<Lo> for Tagged {
    fn eq(&self, o: &Lo) -> bool {
        self.v == o.0
    }
}

pub fn tagged(seq: &[u8]) -> Vec<Tagged> {
    seq.iter().enumerate().map(|(i, &x)| Tagged { v: x as u32, tag: i }).collect()
}

/// Element type with a legal, non-reflexive PartialEq (like f64 with NaN): the value `NAN_LIKE`
/// is unequal to everything including itself.  Only PartialEq: usable with Myers and LCS.
#[derive(Clone, Copy, Debug)]
pub struct Nr(pub u8);
pub const NAN_LIKE: u8 = 1;

impl PartialEq for Nr {
    fn eq(&self, o: &Nr) -> bool {
        self.0 == o.0 && self.0 != NAN_LIKE
    }
}

/// A sequence whose items are UNSIZED views that all start at the same address: item i is
/// `buf[..lens[i]]`, so two items are equal exactly when they have the same length.
pub struct SharedStart<'a> {
    pub buf: &'a [u8],
    pub lens: Vec<usize>,
}

impl<'a> SharedStart<'a> {
    pub fn new(buf: &'a [u8], symbols: &[u8]) -> SharedStart<'a> {
        SharedStart { buf, lens: symbols.iter().map(|&x| x as usize + 1).collect() }
    }
}

impl<'a> Index<usize> for SharedStart<'a> {
    type Output = [u8];
    fn index(&self, i: usize) -> &[u8] {
        &self.buf[..self.lens[i]]
    }
}

/// Hook wrapper that re-enters the library: before forwarding a callback it runs complete
/// diffs of a fixed pair with all three algorithms on the same thread (what a hook that
/// post-processes every change with a nested diff does).
pub struct Reentrant<D: DiffHook> {
    pub inner: D,
    pub nested_runs: u64,
    calls: u64,
}

impl<D: DiffHook> Reentrant<D> {
    pub fn new(inner: D) -> Reentrant<D> {
        Reentrant { inner, nested_runs: 0, calls: 0 }
    }
    fn nested(&mut self) {
        // (only the first two callbacks of a diff re-enter; later ones would only repeat that)
        self.calls += 1;
        const A: [u8; 5] = [3, 0, 1, 0, 2];
        const B: [u8; 6] = [0, 2, 2, 1, 0, 3];
        if self.calls == 1 {
            for alg in [similar::Algorithm::Myers, similar::Algorithm::Patience, similar::Algorithm::Lcs] {
                let mut sink = Rec::new();
                let _ = similar::algorithms::diff(alg, &mut sink, &A[..], 0..A.len(), &B[..], 0..B.len());
                self.nested_runs += 1;
            }
        } else if self.calls == 2 {
            let _ = similar::capture_diff_slices(similar::Algorithm::Patience, &A[..], &B[..]);
            self.nested_runs += 1;
        }
    }
}

impl<D: DiffHook> DiffHook for Reentrant<D> {
    type Error = D::Error;
    fn equal(&mut self, o: usize, n: usize, l: usize) -> Result<(), D::Error> {
        self.nested();
        self.inner.equal(o, n, l)
    }
    fn delete(&mut self, o: usize, l: usize, n: usize) -> Result<(), D::Error> {
        self.nested();
        self.inner.delete(o, l, n)
    }
    fn insert(&mut self, o: usize, n: usize, l: usize) -> Result<(), D::Error> {
        self.nested();
        self.inner.insert(o, n, l)
    }
    fn replace(&mut self, o: usize, ol: usize, n: usize, nl: usize) -> Result<(), D::Error> {
        self.nested();
        self.inner.replace(o, ol, n, nl)
    }
    fn finish(&mut self) -> Result<(), D::Error> {
        self.nested();
        self.inner.finish()
    }
}

/// An "offset lookup": item `base + i` of the sequence is `data[i]`; nothing exists outside
/// `base .. base + data.len()` (reads there panic).  Lets a range sit anywhere in usize.
pub struct OffsetView<'a, T> {
    pub data: &'a [T],
    pub base: usize,
}

impl<'a, T> Index<usize> for OffsetView<'a, T> {
    type Output = T;
    #[inline]
    fn index(&self, i: usize) -> &T {
        if i < self.base || i - self.base >= self.data.len() {
            panic!("read of index {} outside the requested range {}..{}", i, self.base, self.base.wrapping_add(self.data.len()));
        }
        &self.data[i - self.base]
    }
}
