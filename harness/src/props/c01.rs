//! C01 — every algorithm emits a sound, gap-free, index-exact edit script.

use super::common::*;
use crate::engine::*;
use crate::instr::{calls_to_string, Call, Hi, Lo, Nr, OffsetView, Rec, Reentrant, SharedStart, Win};
use crate::oracles::*;
use crate::spaces::*;
use serde_json::{json, Value};
use similar::Algorithm;

pub struct PairOutcome {
    pub nontrivial: bool,
    pub transitions: u64,
    pub fp: u64,
    pub runs: u64,
}

fn shifted(base: &[Call], po: usize, pn: usize) -> Vec<Call> {
    base.iter().map(|c| c.shifted(po, pn)).collect()
}

/// All C01 clauses for one (algorithm, old, new): full-range run through every entry point,
/// then every sub-range embedding through a window `Index` that refuses outside reads and
/// through plain slices with adversarial padding.
pub fn check_pair(alg: Algorithm, old: &[u8], new: &[u8]) -> Result<PairOutcome, String> {
    let (n, m) = (old.len(), new.len());
    let base = raw_stream(alg, 0, old, 0..n, new, 0..m)
        .map_err(|e| format!("{} on full ranges: {}", ENTRY_NAMES[0], e))?;
    let st = validate_stream(&base, old, 0..n, new, 0..m, true)
        .map_err(|e| format!("full ranges: {} [stream: {}]", e, calls_to_string(&base)))?;
    let mut runs = 1u64;
    let mut transitions = base.len() as u64;

    for entry in 1..4 {
        let s = raw_stream(alg, entry, old, 0..n, new, 0..m)
            .map_err(|e| format!("{}: {}", ENTRY_NAMES[entry], e))?;
        runs += 1;
        transitions += s.len() as u64;
        if s != base {
            return Err(format!(
                "{} gives [{}] but {} gives [{}]",
                ENTRY_NAMES[entry],
                calls_to_string(&s),
                ENTRY_NAMES[0],
                calls_to_string(&base)
            ));
        }
    }
    for which in 0..2 {
        let mut rec = Rec::new();
        let r = subject(|| {
            if which == 0 {
                similar::algorithms::diff_slices(alg, &mut rec, old, new)
            } else {
                similar::algorithms::diff_slices_deadline(alg, &mut rec, old, new, None)
            }
        });
        runs += 1;
        match r {
            Err(p) => return Err(format!("diff_slices: panic: {}", p)),
            Ok(Err(k)) => return Err(format!("diff_slices returned Err({})", k)),
            Ok(Ok(())) => {}
        }
        transitions += rec.calls.len() as u64;
        if rec.calls != base {
            return Err(format!(
                "diff_slices gives [{}] but algorithms::diff gives [{}]",
                calls_to_string(&rec.calls),
                calls_to_string(&base)
            ));
        }
    }

    for &(po, pn) in OFFSETS.iter() {
        let full_old = embed(old, po, 2, new);
        let full_new = embed(new, pn, 2, old);
        let or = po..po + n;
        let nr = pn..pn + m;
        let want = shifted(&base, po, pn);
        for mode in 0..2 {
            let got = if mode == 0 {
                let wo = Win {
                    data: &full_old,
                    lo: or.start,
                    hi: or.end,
                };
                let wn = Win {
                    data: &full_new,
                    lo: nr.start,
                    hi: nr.end,
                };
                raw_stream(alg, 0, &wo, or.clone(), &wn, nr.clone())
            } else {
                raw_stream(alg, 0, &full_old[..], or.clone(), &full_new[..], nr.clone())
            };
            let what = if mode == 0 {
                "window Index"
            } else {
                "padded slices"
            };
            let got = got.map_err(|e| {
                format!(
                    "sub-ranges old {:?} new {:?} ({}): {}",
                    or, nr, what, e
                )
            })?;
            runs += 1;
            transitions += got.len() as u64;
            validate_stream(&got, &full_old, or.clone(), &full_new, nr.clone(), true).map_err(
                |e| {
                    format!(
                        "sub-ranges old {:?} new {:?} of old={:?} new={:?} ({}): {} [stream: {}]",
                        or,
                        nr,
                        full_old,
                        full_new,
                        what,
                        e,
                        calls_to_string(&got)
                    )
                },
            )?;
            if got != want {
                return Err(format!(
                    "sub-ranges old {:?} new {:?} of old={:?} new={:?} ({}): stream [{}] differs from the stream on the extracted slices shifted by the range starts [{}]",
                    or, nr, full_old, full_new, what,
                    calls_to_string(&got),
                    calls_to_string(&want)
                ));
            }
        }
    }
    // generic instantiations callers are free to use: a ring buffer whose storage wraps around
    // (VecDeque is Index<usize>) against a Vec; different element types on the two sides that
    // compare equal across types but hash differently; and ONE sequence object on both sides
    // with two ranges into it
    {
        let mut dq: std::collections::VecDeque<u8> = std::collections::VecDeque::with_capacity(n + 3);
        for _ in 0..2 {
            dq.push_back(9);
        }
        for _ in 0..2 {
            dq.pop_front();
        }
        for &x in old.iter().skip(n / 2) {
            dq.push_back(x);
        }
        for &x in old.iter().take(n / 2).rev() {
            dq.push_front(x);
        }
        let newv: Vec<u8> = new.to_vec();
        let got = raw_stream(alg, 0, &dq, 0..n, &newv, 0..m).map_err(|e| format!("old in a VecDeque, new in a Vec: {}", e))?;
        validate_stream(&got, old, 0..n, new, 0..m, true)
            .map_err(|e| format!("old in a VecDeque, new in a Vec: {} [stream: {}]", e, calls_to_string(&got)))?;
        let lo: Vec<Lo> = old.iter().map(|&x| Lo(x as u32)).collect();
        let hi: Vec<Hi> = new.iter().map(|&x| Hi(x as u64)).collect();
        let got = raw_stream(alg, 0, &lo[..], 0..n, &hi[..], 0..m).map_err(|e| format!("old items of type Lo(u32), new items of type Hi(u64): {}", e))?;
        validate_stream(&got, old, 0..n, new, 0..m, true)
            .map_err(|e| format!("old items of type Lo(u32), new items of type Hi(u64): {} [stream: {}]", e, calls_to_string(&got)))?;
        let both: Vec<u8> = old.iter().chain(new.iter()).copied().collect();
        let got = raw_stream(alg, 0, &both[..], 0..n, &both[..], n..n + m)
            .map_err(|e| format!("one sequence {:?} on both sides, ranges {:?} and {:?}: {}", both, 0..n, n..n + m, e))?;
        validate_stream(&got, &both, 0..n, &both, n..n + m, true).map_err(|e| {
            format!("one sequence {:?} on both sides, ranges {:?} and {:?}: {} [stream: {}]", both, 0..n, n..n + m, e, calls_to_string(&got))
        })?;
        runs += 3;
        transitions += 3 * got.len() as u64;
        // ranges that sit far out in the index space (offset lookups): the stream is the base
        // stream shifted by the range starts, and nothing may depend on the magnitude of the
        // indices (memory, overflow)
        for &(so, sn) in [(1usize << 40, 7usize), (3, (1usize << 59) + 1), (usize::MAX / 2, usize::MAX / 2 + 11), (usize::MAX - n, usize::MAX - m)].iter() {
            let vo = OffsetView { data: old, base: so };
            let vn = OffsetView { data: new, base: sn };
            let got = raw_stream(alg, 0, &vo, so..so + n, &vn, sn..sn + m)
                .map_err(|e| format!("ranges old {:?} new {:?} of offset lookups: {}", so..so + n, sn..sn + m, e))?;
            let want = shifted(&base, so, sn);
            if got != want {
                return Err(format!(
                    "ranges old {:?} new {:?} of offset lookups: stream [{}] differs from the stream on the extracted slices shifted by the range starts [{}]",
                    so..so + n, sn..sn + m, calls_to_string(&got), calls_to_string(&want)
                ));
            }
            runs += 1;
        }
        // unsized items that all start at one address (equal exactly when equally long)
        let shared = [7u8; 16];
        let so = SharedStart::new(&shared, old);
        let sn = SharedStart::new(&shared, new);
        let got = raw_stream(alg, 0, &so, 0..n, &sn, 0..m).map_err(|e| format!("items are unsized views buf[..len] of one buffer: {}", e))?;
        validate_stream(&got, old, 0..n, new, 0..m, true)
            .map_err(|e| format!("items are unsized views buf[..len] of one buffer (equal iff equally long): {} [stream: {}]", e, calls_to_string(&got)))?;
        runs += 1;
        // a hook that re-enters the library from inside every callback
        let mut re = Reentrant::new(Rec::new());
        let r = subject(|| raw_into(alg, 0, &mut re, old, 0..n, new, 0..m, None));
        match r {
            Err(p) => return Err(format!("hook that runs nested diffs from inside its callbacks: panic: {}", p)),
            Ok(Err(k)) => return Err(format!("hook that runs nested diffs from inside its callbacks: diff returned Err({})", k)),
            Ok(Ok(())) => {}
        }
        validate_stream(&re.inner.calls, old, 0..n, new, 0..m, true).map_err(|e| {
            format!("hook that runs nested diffs from inside its callbacks: {} [stream: {}]", e, calls_to_string(&re.inner.calls))
        })?;
        runs += 1 + re.nested_runs;
        // element type with a non-reflexive PartialEq (NaN-like value 1), one object on both
        // sides, same range and two ranges: Myers and LCS need PartialEq only
        if alg != Algorithm::Patience {
            let both_nr: Vec<Nr> = both.iter().map(|&x| Nr(x)).collect();
            for (or, nr) in [(0..n, 0..n), (0..n, n..n + m), (0..n + m, 0..n + m)] {
                let mut rec = Rec::new();
                let r = subject(|| {
                    if alg == Algorithm::Myers {
                        similar::algorithms::myers::diff(&mut rec, &both_nr[..], or.clone(), &both_nr[..], nr.clone())
                    } else {
                        similar::algorithms::lcs::diff(&mut rec, &both_nr[..], or.clone(), &both_nr[..], nr.clone())
                    }
                });
                match r {
                    Err(p) => return Err(format!("non-reflexive items, one object {:?} on both sides, ranges {:?} / {:?}: panic: {}", both, or, nr, p)),
                    Ok(Err(k)) => return Err(format!("non-reflexive items: diff returned Err({})", k)),
                    Ok(Ok(())) => {}
                }
                validate_stream(&rec.calls, &both_nr, or.clone(), &both_nr, nr.clone(), true).map_err(|e| {
                    format!(
                        "items with a non-reflexive PartialEq (value 1 equals nothing), one object {:?} on both sides, ranges {:?} / {:?}: {} [stream: {}]",
                        both, or, nr, e, calls_to_string(&rec.calls)
                    )
                })?;
                runs += 1;
            }
        }
    }
    Ok(PairOutcome {
        nontrivial: n > 0 && m > 0 && old != new && st.equal_calls > 0 && st.change_calls > 0,
        transitions,
        fp: calls_fp(&base),
        runs,
    })
}

pub fn scopes(tier: Tier) -> Vec<Scope> {
    match tier {
        Tier::Quick => vec![
            Scope::P { k: 3, n: 6 },
            Scope::P { k: 2, n: 8 },
            Scope::R { l: 9 },
        ],
        Tier::Thorough => vec![
            Scope::P { k: 3, n: 7 },
            Scope::P { k: 2, n: 10 },
            Scope::P { k: 4, n: 6 },
            Scope::R { l: 11 },
        ],
    }
}

// ---- canary in a child process ----------------------------------------------------------------
// A diff over ranges far out in the index space can, on a broken tree, ask the allocator for an
// absurd amount of memory: that ABORTS the process and cannot be caught.  The same probe as in
// `check_pair` therefore runs first in a child process; a child that dies is a reported violation,
// not a dead harness.

const PROBE_INPUTS: [(&[u8], &[u8]); 6] = [
    (&[0, 1, 2, 3], &[0, 1, 2, 3]),
    (&[0, 1, 2, 3, 4, 5, 6, 7], &[0, 1, 9, 3, 4, 5, 6, 7]),
    (&[0, 1, 0, 2], &[2, 0, 1]),
    (&[], &[0, 1]),
    (&[5], &[]),
    (&[0, 1, 2, 3, 4, 5, 6, 7], &[7, 6, 5, 4, 3, 2, 1, 0]),
];

/// body of the child: exit code 0 = held, 3 = mismatch (complaint on stdout)
pub fn offset_probe_child() -> i32 {
    for (old, new) in PROBE_INPUTS.iter() {
        let (n, m) = (old.len(), new.len());
        for &alg in ALGS.iter() {
            let base = match raw_stream(alg, 0, *old, 0..n, *new, 0..m) {
                Ok(b) => b,
                Err(e) => {
                    println!("probe: {} on {:?} / {:?}: {}", alg_name(alg), old, new, e);
                    return 3;
                }
            };
            for &(so, sn) in [(1usize << 40, 7usize), (3, (1usize << 59) + 1), (usize::MAX / 2, usize::MAX / 2 + 11), (usize::MAX - n, usize::MAX - m)].iter() {
                let vo = OffsetView { data: *old, base: so };
                let vn = OffsetView { data: *new, base: sn };
                match raw_stream(alg, 0, &vo, so..so + n, &vn, sn..sn + m) {
                    Ok(got) if got == shifted(&base, so, sn) => {}
                    Ok(got) => {
                        println!(
                            "probe: {} on ranges old {:?} new {:?} of offset lookups over {:?} / {:?}: stream [{}] differs from the stream on the extracted slices shifted by the range starts",
                            alg_name(alg), so..so + n, sn..sn + m, old, new, calls_to_string(&got)
                        );
                        return 3;
                    }
                    Err(e) => {
                        println!("probe: {} on ranges old {:?} new {:?} of offset lookups over {:?} / {:?}: {}", alg_name(alg), so..so + n, sn..sn + m, old, new, e);
                        return 3;
                    }
                }
            }
        }
    }
    0
}

/// parent side: run the probe in a child process of this binary
pub fn offset_probe() -> Result<(), String> {
    let exe = std::env::current_exe().map_err(|e| format!("cannot find the harness binary: {}", e))?;
    let out = std::process::Command::new(exe)
        .args(["C01", "--probe-offsets"])
        .output()
        .map_err(|e| format!("cannot start the probe child: {}", e))?;
    let stdout = String::from_utf8_lossy(&out.stdout);
    let stderr = String::from_utf8_lossy(&out.stderr);
    match out.status.code() {
        Some(0) => Ok(()),
        Some(3) => Err(stdout.lines().last().unwrap_or("probe failed").to_string()),
        other => Err(format!(
            "diffing ranges far out in the index space (offset lookups with starts 2^40, 2^59, usize::MAX/2, usize::MAX - len; 4-8 items per side) KILLED the process ({}): {}",
            match other {
                Some(c) => format!("exit code {}", c),
                None => "terminated by a signal / abort".to_string(),
            },
            stderr.lines().rev().take(3).collect::<Vec<_>>().join(" | ")
        )),
    }
}

pub fn run(cfg: &RunCfg) -> CheckReport {
    // (VERIF_SKIP_CANARY exists only to test the supervisor in main.rs against a tree that aborts)
    if let Err(e) = if std::env::var("VERIF_SKIP_CANARY").is_ok() { Ok(()) } else { offset_probe() } {
        let mut rep = CheckReport::new("exploration", "canary: ranges far out in the index space, diffed in a child process");
        let mut acc = Acc::default();
        acc.violation(|| (json!({"offset_probe": true}), e));
        rep.part("offset-probe", json!({}), Explored { acc, shards_total: 1, shards_done: 0, capped: false, wall_s: 0.0 });
        return rep;
    }
    let mut rep = CheckReport::new(
        "exploration",
        "every (algorithm, old, new) with the pair drawn from the listed scopes (P(k,n) = all ordered pairs of sequences over k symbols of length <= n; R(L) = every equality pattern of total length <= L cut at every position; later scopes skip pairs of earlier ones, so cases are distinct by construction); each case runs 6 full-range entry points plus 8 sub-range embeddings (4 offset pairs x {window Index that panics outside the range, adversarially padded slices}). Non-trivial: both sides non-empty, sequences differ, and the stream contains at least one equal and one change call.",
    );
    rep.assume("oracle: cursor automaton + differential comparison with the run on the extracted slices; element type u8");
    rep.assume("before the exploration a canary diffs ranges far out in the index space in a CHILD process (an absurd allocation aborts the process and cannot be caught); a child that dies is reported as a violation");
    rep.assume("each case additionally runs three generic instantiations: old in a VecDeque whose storage wraps around against new in a Vec; old items of type Lo(u32) against new items of type Hi(u64) (equal across the types, different hashes); one sequence object on both sides with two ranges into it; ranges far out in the index space through offset lookups (starts 2^40, 2^59, usize::MAX/2, usize::MAX - len); unsized items that all start at one address; a hook that re-enters the library (nested diffs with all three algorithms) from inside every callback; for Myers and LCS items with a non-reflexive PartialEq on one object with equal and different ranges");
    let space = PairSpace::new(scopes(cfg.tier));
    let ex = explore(cfg, space.nshards(), |shard, acc| {
        space.for_each(shard, |old, new| {
            for &alg in ALGS.iter() {
                match check_pair(alg, old, new) {
                    Ok(o) => {
                        if acc.want_sample() {
                            acc.sample(seq_case(alg, old, new));
                        }
                        acc.count("diff_runs", o.runs);
                        acc.ok(o.nontrivial, o.transitions, o.fp);
                    }
                    Err(e) => acc.violation(|| (seq_case(alg, old, new), e)),
                }
                if acc.stop() {
                    return false;
                }
            }
            true
        });
    });
    rep.part("pairs", json!({"scopes": space.describe(), "algorithms": 3, "offsets": format!("{:?}", OFFSETS)}), ex);
    if !rep.has_violation() {
        // the same clauses for diffs started from a destructor while the thread exits
        const INPUTS: [(&[u8], &[u8]); 4] = [(&[0, 1, 2, 3], &[0, 9, 2, 3, 4]), (&[], &[1]), (&[0, 1, 0, 1, 2], &[1, 0, 2, 2]), (&[5, 5], &[5, 5])];
        let ex = explore(cfg, INPUTS.len() * 3, |shard, acc| {
            let (old, new) = INPUTS[shard / 3];
            let alg = ALGS[shard % 3];
            let r = at_thread_exit(
                move || {
                    let mut sink = Rec::new();
                    let _ = raw_into(alg, 0, &mut sink, old, 0..old.len(), new, 0..new.len(), None);
                    let _ = similar::capture_diff_slices(alg, old, new);
                },
                move || check_pair(alg, old, new).map(|_| ()),
            );
            match r {
                Ok(()) => acc.ok(true, 1, shard as u64),
                Err(e) => acc.violation(|| {
                    let mut c = seq_case(alg, old, new);
                    c["at_thread_exit"] = json!(true);
                    (c, format!("diff started from a thread-local destructor at thread exit: {}", e))
                }),
            }
        });
        rep.part("thread-exit", json!({"inputs": INPUTS.len(), "note": "the whole pair check run from the Drop of a thread-local value while its thread exits, after the same thread used the library"}), ex);
    }
    if rep.has_violation() {
        return rep;
    }
    super::large::run_part(cfg, &mut rep, &ALGS, &|a| if a == Algorithm::Lcs { 300 } else { usize::MAX }, check_large);
    if rep.has_violation() {
        return rep;
    }
    let big = super::large::lcs_big_for(cfg.tier, false);
    let ex = explore(cfg, big.len(), |shard, acc| {
        let inp = &big[shard];
        match check_large(Algorithm::Lcs, inp) {
            Ok((nt, tr, fp)) => {
                acc.sample(super::large::case_json(Algorithm::Lcs, inp, cfg.seed));
                acc.ok(nt, tr, fp);
            }
            Err(e) => acc.violation(|| (super::large::case_json(Algorithm::Lcs, inp, cfg.seed), format!("{}: {}", inp.name, e))),
        }
    });
    rep.part("lcs-beyond-2^20-cells", json!({"inputs": big.iter().map(|i| i.name.clone()).collect::<Vec<_>>()}), ex);
    rep
}

/// the C01 clauses on one large input: full range + one sub-range embedding (window Index)
pub fn check_large(alg: Algorithm, inp: &super::large::LargeInput) -> Result<(bool, u64, u64), String> {
    let (old, new) = (&inp.old[..], &inp.new[..]);
    let (n, m) = (old.len(), new.len());
    let base = raw_stream(alg, 0, old, 0..n, new, 0..m)?;
    let st = validate_stream(&base, old, 0..n, new, 0..m, true)?;
    let (po, pn) = (7usize, 3usize);
    let fo = super::large::embed32(old, po, 2, new);
    let fnw = super::large::embed32(new, pn, 2, old);
    let wo = Win { data: &fo, lo: po, hi: po + n };
    let wn = Win { data: &fnw, lo: pn, hi: pn + m };
    let got = raw_stream(alg, 0, &wo, po..po + n, &wn, pn..pn + m)
        .map_err(|e| format!("sub-ranges old {:?} new {:?} (window Index): {}", po..po + n, pn..pn + m, e))?;
    validate_stream(&got, &fo, po..po + n, &fnw, pn..pn + m, true)
        .map_err(|e| format!("sub-ranges old {:?} new {:?}: {}", po..po + n, pn..pn + m, e))?;
    if got != shifted(&base, po, pn) {
        return Err(format!(
            "sub-ranges old {:?} new {:?}: stream differs from the stream on the extracted slices shifted by the range starts",
            po..po + n,
            pn..pn + m
        ));
    }
    // old and new in different element types (new: PartialEq<old>)
    {
        use crate::instr::{Hi, Lo};
        let o: Vec<Lo> = old.iter().map(|&x| Lo(x)).collect();
        let nn: Vec<Hi> = new.iter().map(|&x| Hi(x as u64)).collect();
        let het = raw_stream(alg, 0, &o[..], 0..n, &nn[..], 0..m).map_err(|e| format!("heterogeneous element types: {}", e))?;
        if het != base {
            return Err("with old items of type Lo(u32) and new items of type Hi(u64) the stream differs from the stream on u32 items".into());
        }
    }
    Ok((st.equal_calls > 0 && st.change_calls > 0, base.len() as u64 + got.len() as u64, calls_fp(&base)))
}

pub fn replay(case: &Value) -> Result<String, String> {
    if case.get("offset_probe").is_some() {
        return offset_probe().map(|_| "holds; the probe child exited cleanly".to_string());
    }
    if let Some(r) = super::large::resolve(case) {
        let (alg, inp) = r?;
        return check_large(alg, &inp).map(|o| format!("holds; fingerprint {:x}", o.2));
    }
    let alg = parse_alg(case)?;
    let old = parse_seq(case, "old")?;
    let new = parse_seq(case, "new")?;
    if case.get("at_thread_exit").is_some() {
        let (o2, n2) = (old.clone(), new.clone());
        return at_thread_exit(
            move || {
                let _ = similar::capture_diff_slices(alg, &o2, &n2);
            },
            move || check_pair(alg, &old, &new).map(|_| ()),
        )
        .map(|_| "holds".to_string());
    }
    check_pair(alg, &old, &new).map(|o| format!("holds; fingerprint {:x}", o.fp))
}
