//! C04 (text diffs reconstruct both inputs) and C17 (remapped slices are the original
//! substrings), over the same space of text pairs.

use super::common::*;
use crate::engine::*;
use crate::oracles::*;
use serde_json::{json, Value};
use similar::utils::TextDiffRemapper;
use similar::{Algorithm, ChangeTag, DiffableStr, TextDiff};

/// Letters of the text alphabets.  No letter is a concatenation of others, so distinct letter
/// sequences are distinct texts.
pub const LETTERS_VALID: [&[u8]; 9] = [
    b"a",
    b"\n",
    b" ",
    b"b",
    b"\r",
    "\u{e9}".as_bytes(),
    "\u{a0}".as_bytes(),
    "\u{301}".as_bytes(),
    "\u{1f1e6}".as_bytes(),
];
pub const LETTERS_INVALID: [&[u8]; 3] = [&[0xFF], &[0xC3], &[0xE2, 0x82]];

pub struct TextSpace {
    pub texts: Vec<Vec<u8>>,
    pub valid: Vec<bool>,
    pub letters: Vec<Vec<u8>>,
    pub max_len: usize,
}

impl TextSpace {
    pub fn new(letters: &[&[u8]], max_len: usize) -> TextSpace {
        let k = letters.len();
        let total = super::c06::count_words(k, max_len);
        let mut texts = Vec::with_capacity(total as usize);
        let mut w = vec![];
        for idx in 0..total {
            super::c06::nth_word(k, idx, &mut w);
            let mut t = vec![];
            for &l in &w {
                t.extend_from_slice(letters[l]);
            }
            texts.push(t);
        }
        let valid = texts.iter().map(|t| std::str::from_utf8(t).is_ok()).collect();
        TextSpace {
            texts,
            valid,
            letters: letters.iter().map(|l| l.to_vec()).collect(),
            max_len,
        }
    }
    pub fn describe(&self) -> Value {
        json!({
            "letters": self.letters.iter().map(|l| String::from_utf8_lossy(l).to_string()).collect::<Vec<_>>(),
            "letters_bytes": self.letters,
            "max_letters": self.max_len,
            "texts": self.texts.len(),
        })
    }
}

thread_local! {
    /// LCS builds an O(N*M) BTreeMap: skipped for texts longer than this many bytes
    static LCS_BYTE_CAP: std::cell::Cell<usize> = std::cell::Cell::new(usize::MAX);
}

fn lcs_ok(old: &[u8], new: &[u8], alg: Algorithm) -> bool {
    alg != Algorithm::Lcs || old.len().max(new.len()) <= LCS_BYTE_CAP.with(|c| c.get())
}

pub const TOKENIZERS: [&str; 6] = [
    "lines",
    "words",
    "chars",
    "unicode_words",
    "graphemes",
    "slices(lines_and_newlines)",
];

#[cfg(feature = "unicode")]
pub const N_TOK: usize = 6;
#[cfg(not(feature = "unicode"))]
pub const N_TOK: usize = 6;

fn tokenizer_available(t: usize) -> bool {
    if cfg!(feature = "unicode") {
        true
    } else {
        t != 3 && t != 4
    }
}

/// Builds the text diff for tokenizer `t` and hands it to `f` (the slices constructor needs
/// buffers that outlive the diff, hence the continuation).
pub fn with_diff<'a, T, R>(
    t: usize,
    alg: Algorithm,
    old: &'a T,
    new: &'a T,
    f: impl for<'b> FnOnce(&TextDiff<'a, 'a, 'b, T>) -> R,
) -> R
where
    T: DiffableStr + ?Sized,
{
    let mut cfg = TextDiff::configure();
    cfg.algorithm(alg);
    match t {
        0 => f(&cfg.diff_lines(old, new)),
        1 => f(&cfg.diff_words(old, new)),
        2 => f(&cfg.diff_chars(old, new)),
        #[cfg(feature = "unicode")]
        3 => f(&cfg.diff_unicode_words(old, new)),
        #[cfg(feature = "unicode")]
        4 => f(&cfg.diff_graphemes(old, new)),
        _ => {
            let o = old.tokenize_lines_and_newlines();
            let n = new.tokenize_lines_and_newlines();
            f(&cfg.diff_slices(&o, &n))
        }
    }
}

fn lossy(b: &[u8]) -> String {
    format!("{:?}", String::from_utf8_lossy(b))
}

// ---------------------------------------------------------------------------------------
// C04
// ---------------------------------------------------------------------------------------

fn c04_diff<'a, T: DiffableStr + ?Sized>(
    diff: &TextDiff<'a, 'a, '_, T>,
    old: &[u8],
    new: &[u8],
) -> Result<(u64, u64), String> {
    let mut ro: Vec<u8> = vec![];
    let mut rn: Vec<u8> = vec![];
    let mut next_old = 0usize;
    let mut next_new = 0usize;
    let mut fp = Fp::new();
    let mut count = 0u64;
    let all: Vec<_> = diff.iter_all_changes().collect();
    for ch in &all {
        count += 1;
        let v = ch.value().as_bytes();
        // the other views of the same value
        {
            let by_ref: &[u8] = (*ch.value_ref()).as_bytes();
            let mut c2 = ch.clone();
            let by_mut: Vec<u8> = (*c2.value_mut()).as_bytes().to_vec();
            if by_ref.as_ptr() != v.as_ptr() || by_ref.len() != v.len() || by_mut != v {
                return Err("value_ref() / value_mut() of a change differ from value()".into());
            }
            if ch.as_str() != std::str::from_utf8(v).ok() || ch.to_string_lossy() != String::from_utf8_lossy(v) {
                return Err(format!(
                    "as_str() / to_string_lossy() of a change ({:?} / {:?}) are not its value {}",
                    ch.as_str(),
                    ch.to_string_lossy(),
                    lossy(v)
                ));
            }
        }
        fp.add(ch.tag() as u64 + 4 * v.len() as u64);
        match ch.tag() {
            ChangeTag::Equal => {
                if ch.old_index() != Some(next_old) || ch.new_index() != Some(next_new) {
                    return Err(format!(
                        "Equal change carries indices {:?}/{:?}, expected Some({})/Some({})",
                        ch.old_index(),
                        ch.new_index(),
                        next_old,
                        next_new
                    ));
                }
                next_old += 1;
                next_new += 1;
                ro.extend_from_slice(v);
                rn.extend_from_slice(v);
            }
            ChangeTag::Delete => {
                if ch.old_index() != Some(next_old) || ch.new_index().is_some() {
                    return Err(format!(
                        "Delete change carries indices {:?}/{:?}, expected Some({})/None",
                        ch.old_index(),
                        ch.new_index(),
                        next_old
                    ));
                }
                next_old += 1;
                ro.extend_from_slice(v);
            }
            ChangeTag::Insert => {
                if ch.new_index() != Some(next_new) || ch.old_index().is_some() {
                    return Err(format!(
                        "Insert change carries indices {:?}/{:?}, expected None/Some({})",
                        ch.old_index(),
                        ch.new_index(),
                        next_new
                    ));
                }
                next_new += 1;
                rn.extend_from_slice(v);
            }
        }
    }
    if ro != old {
        return Err(format!(
            "non-Insert changes concatenate to {} instead of the old text {}",
            lossy(&ro),
            lossy(old)
        ));
    }
    if rn != new {
        return Err(format!(
            "non-Delete changes concatenate to {} instead of the new text {}",
            lossy(&rn),
            lossy(new)
        ));
    }
    let per_op: Vec<_> = diff.ops().iter().flat_map(|op| diff.iter_changes(op)).collect();
    if per_op != all {
        return Err("iter_all_changes differs from the concatenation of iter_changes over ops".into());
    }
    // the same sequence however the iterators are consumed (nth / skip / step_by / take-then-rest /
    // fold / count / last / peekable / find ...)
    if all.len() <= 10 && modes_wanted(old.len() + new.len(), 5) {
        consumption_modes(&|| "iter_all_changes".to_string(), || diff.iter_all_changes(), |c| (c.tag(), c.old_index(), c.new_index(), c.value().as_bytes().as_ptr() as usize, c.value().as_bytes().len()))?;
        crate::both_ends_modes!(|| "iter_all_changes".to_string(), || diff.iter_all_changes(), |c: similar::Change<&T>| (c.tag(), c.old_index(), c.new_index(), c.value().as_bytes().as_ptr() as usize, c.value().as_bytes().len()))?;
        crate::clone_modes!(|| "iter_all_changes".to_string(), || diff.iter_all_changes(), |c: similar::Change<&T>| (c.tag(), c.old_index(), c.new_index(), c.value().as_bytes().as_ptr() as usize, c.value().as_bytes().len()))?;
        for (i, op) in diff.ops().iter().enumerate() {
            if i < 2 || i + 1 == diff.ops().len() {
                consumption_modes(&|| format!("iter_changes({:?})", op), || diff.iter_changes(op), |c| (c.tag(), c.old_index(), c.new_index(), c.value().as_bytes().as_ptr() as usize, c.value().as_bytes().len()))?;
                crate::both_ends_modes!(|| format!("iter_changes({:?})", op), || diff.iter_changes(op), |c: similar::Change<&T>| (c.tag(), c.old_index(), c.new_index(), c.value().as_bytes().as_ptr() as usize, c.value().as_bytes().len()))?;
            }
        }
    }
    Ok((count, fp.0))
}

/// The other argument types the constructors accept (String, Cow borrowed / owned, Vec<u8>,
/// mixed old/new kinds are not possible: one type parameter): same clauses.
fn c04_argument_types(old: &[u8], new: &[u8]) -> Result<u64, String> {
    use std::borrow::Cow;
    let mut n = 0;
    let run = |name: &str, r: Result<Result<(u64, u64), String>, String>| -> Result<(), String> {
        r.map_err(|p| format!("arguments of type {}: panic: {}", name, p))?
            .map_err(|e| format!("arguments of type {}: {}", name, e))
            .map(|_| ())
    };
    for t in [0usize, 2] {
        let (vo, vn) = (old.to_vec(), new.to_vec());
        run("Vec<u8>", subject(|| if t == 0 { c04_diff(&TextDiff::from_lines(&vo, &vn), old, new) } else { c04_diff(&TextDiff::from_chars(&vo, &vn), old, new) }))?;
        let (co, cn): (Cow<[u8]>, Cow<[u8]>) = (Cow::Borrowed(old), Cow::Owned(new.to_vec()));
        run("Cow<[u8]>", subject(|| if t == 0 { c04_diff(&TextDiff::from_lines(&co, &cn), old, new) } else { c04_diff(&TextDiff::from_chars(&co, &cn), old, new) }))?;
        n += 2;
        if let (Ok(a), Ok(b)) = (std::str::from_utf8(old), std::str::from_utf8(new)) {
            let (so, sn) = (a.to_string(), b.to_string());
            run("String", subject(|| if t == 0 { c04_diff(&TextDiff::from_lines(&so, &sn), old, new) } else { c04_diff(&TextDiff::from_chars(&so, &sn), old, new) }))?;
            let (co, cn): (Cow<str>, Cow<str>) = (Cow::Owned(a.to_string()), Cow::Borrowed(b));
            run("Cow<str>", subject(|| if t == 0 { c04_diff(&TextDiff::from_lines(&co, &cn), old, new) } else { c04_diff(&TextDiff::from_chars(&co, &cn), old, new) }))?;
            n += 2;
        }
    }
    Ok(n)
}

pub fn c04_pair(old: &[u8], new: &[u8]) -> Result<(bool, u64, u64, u64), String> {
    let mut total = 0;
    let mut fp = Fp::new();
    let mut diffs = 0;
    let mut nontrivial = false;
    let as_str = match (std::str::from_utf8(old), std::str::from_utf8(new)) {
        (Ok(a), Ok(b)) => Some((a, b)),
        _ => None,
    };
    diffs += c04_argument_types(old, new)?;
    for t in 0..N_TOK {
        if !tokenizer_available(t) {
            continue;
        }
        for &alg in ALGS.iter() {
            if !lcs_ok(old, new, alg) {
                continue;
            }
            let r = subject(|| with_diff(t, alg, old, new, |d| c04_diff(d, old, new)))
                .map_err(|p| format!("[u8] {} {}: panic: {}", TOKENIZERS[t], alg_name(alg), p))?
                .map_err(|e| format!("[u8] {} {}: {}", TOKENIZERS[t], alg_name(alg), e))?;
            total += r.0;
            fp.add(r.1);
            diffs += 1;
            if r.0 >= 3 {
                nontrivial = true;
            }
            if let Some((a, b)) = as_str {
                let r = subject(|| with_diff(t, alg, a, b, |d| c04_diff(d, old, new)))
                    .map_err(|p| format!("str {} {}: panic: {}", TOKENIZERS[t], alg_name(alg), p))?
                    .map_err(|e| format!("str {} {}: {}", TOKENIZERS[t], alg_name(alg), e))?;
                total += r.0;
                fp.add(r.1);
                diffs += 1;
            }
        }
    }
    Ok((nontrivial && old != new, total, fp.0, diffs))
}

// ---------------------------------------------------------------------------------------
// C17
// ---------------------------------------------------------------------------------------

fn c17_diff<'a, T: DiffableStr + ?Sized>(
    diff: &TextDiff<'a, 'a, '_, T>,
    old_t: &'a T,
    new_t: &'a T,
) -> Result<(u64, u64), String> {
    let old = old_t.as_bytes();
    let new = new_t.as_bytes();
    let remapper = TextDiffRemapper::from_text_diff(diff, old_t, new_t);
    let mut ro: Vec<u8> = vec![];
    let mut rn: Vec<u8> = vec![];
    let mut fp = Fp::new();
    let mut n = 0;
    let mut off_old = 0usize; // byte offset of the next old token
    let mut off_new = 0usize;
    for (op_no, op) in diff.ops().iter().enumerate() {
        let plain: Vec<(ChangeTag, &[&T])> = op
            .iter_slices(diff.old_slices(), diff.new_slices())
            .collect();
        let mapped: Vec<(ChangeTag, &T)> = remapper.iter_slices(op).collect();
        if plain.len() != mapped.len() {
            return Err(format!(
                "{:?}: remapper yields {} slices, slice-wise expansion {}",
                op,
                mapped.len(),
                plain.len()
            ));
        }
        // (independent of the surrounding diff: the first two ops and the last one of each diff)
        if (op_no < 2 || op_no + 1 == diff.ops().len()) && modes_wanted(old.len() + new.len(), 5) {
            consumption_modes(
                &|| format!("{:?}: TextDiffRemapper::iter_slices", op),
                || remapper.iter_slices(op),
                |(t, s)| (t, s.as_bytes().as_ptr() as usize, s.as_bytes().len()),
            )?;
            consumption_modes(
                &|| format!("{:?}: DiffOp::iter_slices", op),
                || op.iter_slices(diff.old_slices(), diff.new_slices()),
                |(t, s)| (t, s.as_ptr() as usize, s.len()),
            )?;
            crate::both_ends_modes!(
                || format!("{:?}: TextDiffRemapper::iter_slices", op),
                || remapper.iter_slices(op),
                |(t, s): (ChangeTag, &T)| (t, s.as_bytes().as_ptr() as usize, s.as_bytes().len())
            )?;
        }
        for ((ptag, toks), (mtag, s)) in plain.iter().zip(mapped.iter()) {
            n += 1;
            if ptag != mtag {
                return Err(format!(
                    "{:?}: remapper tag {:?}, slice-wise expansion tag {:?}",
                    op, mtag, ptag
                ));
            }
            let concat: Vec<u8> = toks.iter().flat_map(|t| t.as_bytes().iter().copied()).collect();
            let sb = s.as_bytes();
            if sb != &concat[..] {
                return Err(format!(
                    "{:?}: remapped slice {} differs from the concatenation of its tokens {}",
                    op,
                    lossy(sb),
                    lossy(&concat)
                ));
            }
            // pointer identity with the original text at the position of the op's tokens
            let (orig, off) = match (mtag, op.tag()) {
                (ChangeTag::Insert, _) => (new, &mut off_new),
                (ChangeTag::Delete, _) => (old, &mut off_old),
                (ChangeTag::Equal, _) => (old, &mut off_old),
            };
            let want_ptr = orig.as_ptr() as usize + *off;
            if sb.as_ptr() as usize != want_ptr || *off + sb.len() > orig.len() {
                return Err(format!(
                    "{:?}: remapped {:?} slice {} is not the substring of the original text at byte {}",
                    op,
                    mtag,
                    lossy(sb),
                    *off
                ));
            }
            *off += sb.len();
            match mtag {
                ChangeTag::Equal => {
                    off_new += sb.len();
                    ro.extend_from_slice(sb);
                    rn.extend_from_slice(sb);
                }
                ChangeTag::Delete => ro.extend_from_slice(sb),
                ChangeTag::Insert => rn.extend_from_slice(sb),
            }
            fp.add(*mtag as u64 + 4 * sb.len() as u64);
        }
    }
    // the answers do not depend on the order in which ops are remapped, on the remapper having
    // been used before, or on which constructor built it
    {
        let key = |it: Vec<(ChangeTag, &T)>| -> Vec<(ChangeTag, usize, usize)> {
            it.into_iter().map(|(t, s)| (t, s.as_bytes().as_ptr() as usize, s.as_bytes().len())).collect()
        };
        let forward: Vec<Vec<(ChangeTag, usize, usize)>> = diff.ops().iter().map(|op| key(remapper.iter_slices(op).collect())).collect();
        let other = TextDiffRemapper::new(diff.old_slices(), diff.new_slices(), old_t, new_t);
        for (i, op) in diff.ops().iter().enumerate().rev() {
            let again = key(remapper.iter_slices(op).collect());
            let from_new = key(other.iter_slices(op).collect());
            if again != forward[i] || from_new != forward[i] {
                return Err(format!(
                    "{:?}: remapping the ops in reverse order / through TextDiffRemapper::new gives different slices than the first pass",
                    op
                ));
            }
        }
    }
    if ro != old || rn != new {
        return Err(format!(
            "remapped slices reconstruct old as {} and new as {}; expected {} and {}",
            lossy(&ro),
            lossy(&rn),
            lossy(old),
            lossy(new)
        ));
    }
    Ok((n, fp.0))
}

fn helper_check<S: AsRef<[u8]>>(
    name: &str,
    res: &[(ChangeTag, S)],
    old: &[u8],
    new: &[u8],
) -> Result<(), String> {
    let mut ro: Vec<u8> = vec![];
    let mut rn: Vec<u8> = vec![];
    for (tag, s) in res {
        let s = s.as_ref();
        if s.is_empty() {
            return Err(format!("{}: returned an empty slice", name));
        }
        match tag {
            ChangeTag::Equal => {
                ro.extend_from_slice(s);
                rn.extend_from_slice(s);
            }
            ChangeTag::Delete => ro.extend_from_slice(s),
            ChangeTag::Insert => rn.extend_from_slice(s),
        }
    }
    if ro != old || rn != new {
        return Err(format!(
            "{}: slices reconstruct old as {} and new as {}; expected {} and {}",
            name,
            lossy(&ro),
            lossy(&rn),
            lossy(old),
            lossy(new)
        ));
    }
    Ok(())
}

fn c17_helpers<T>(alg: Algorithm, old_t: &T, new_t: &T, kind: &str) -> Result<u64, String>
where
    T: DiffableStr + ?Sized,
{
    use similar::utils;
    let old = old_t.as_bytes();
    let new = new_t.as_bytes();
    let mut n = 0;
    macro_rules! helper {
        ($name:expr, $call:expr) => {{
            let name = format!("{} utils::{}({})", kind, $name, alg_name(alg));
            let r: Vec<(ChangeTag, &T)> =
                subject(|| $call).map_err(|p| format!("{}: panic: {}", name, p))?;
            let v: Vec<(ChangeTag, &[u8])> = r.iter().map(|(t, s)| (*t, s.as_bytes())).collect();
            helper_check(&name, &v, old, new)?;
            n += 1;
        }};
    }
    helper!("diff_chars", utils::diff_chars(alg, old_t, new_t));
    helper!("diff_words", utils::diff_words(alg, old_t, new_t));
    helper!("diff_lines", utils::diff_lines(alg, old_t, new_t));
    #[cfg(feature = "unicode")]
    {
        helper!("diff_unicode_words", utils::diff_unicode_words(alg, old_t, new_t));
        helper!("diff_graphemes", utils::diff_graphemes(alg, old_t, new_t));
    }
    // diff_slices over the raw bytes of the texts
    let name = format!("{} utils::diff_slices({})", kind, alg_name(alg));
    let r = subject(|| utils::diff_slices(alg, old, new)).map_err(|p| format!("{}: panic: {}", name, p))?;
    helper_check(&name, &r, old, new)?;
    Ok(n + 1)
}

pub fn c17_pair(old: &[u8], new: &[u8]) -> Result<(bool, u64, u64, u64), String> {
    let mut total = 0;
    let mut fp = Fp::new();
    let mut diffs = 0;
    let mut nontrivial = false;
    let as_str = match (std::str::from_utf8(old), std::str::from_utf8(new)) {
        (Ok(a), Ok(b)) => Some((a, b)),
        _ => None,
    };
    for &alg in ALGS.iter() {
        if !lcs_ok(old, new, alg) {
            continue;
        }
        for t in 0..N_TOK {
            if !tokenizer_available(t) {
                continue;
            }
            let r = subject(|| with_diff(t, alg, old, new, |d| c17_diff(d, old, new)))
                .map_err(|p| format!("[u8] {} {}: panic: {}", TOKENIZERS[t], alg_name(alg), p))?
                .map_err(|e| format!("[u8] {} {}: {}", TOKENIZERS[t], alg_name(alg), e))?;
            total += r.0;
            fp.add(r.1);
            diffs += 1;
            if r.0 >= 2 {
                nontrivial = true;
            }
            if let Some((a, b)) = as_str {
                let r = subject(|| with_diff(t, alg, a, b, |d| c17_diff(d, a, b)))
                    .map_err(|p| format!("str {} {}: panic: {}", TOKENIZERS[t], alg_name(alg), p))?
                    .map_err(|e| format!("str {} {}: {}", TOKENIZERS[t], alg_name(alg), e))?;
                total += r.0;
                fp.add(r.1);
                diffs += 1;
            }
        }
        // caller-side tokens with zero-width tokens among them (fields between separators):
        // one byte per token, an empty token before every second one and at the end
        if old.len() + new.len() <= 8 {
            fn fields(s: &[u8]) -> Vec<&[u8]> {
                let mut rv = vec![];
                for i in 0..s.len() {
                    if i % 2 == 0 {
                        rv.push(&s[i..i]);
                    }
                    rv.push(&s[i..i + 1]);
                }
                rv.push(&s[s.len()..]);
                rv
            }
            let (fo, fnw) = (fields(old), fields(new));
            let r = subject(|| {
                let d = TextDiff::configure().algorithm(alg).diff_slices(&fo, &fnw);
                c17_diff(&d, old, new)
            })
            .map_err(|p| format!("[u8] caller tokens with empty tokens {}: panic: {}", alg_name(alg), p))?
            .map_err(|e| format!("[u8] caller tokens with empty tokens {}: {}", alg_name(alg), e))?;
            total += r.0;
            fp.add(r.1);
            diffs += 1;
        }
        diffs += c17_helpers::<[u8]>(alg, old, new, "[u8]")?;
        if let Some((a, b)) = as_str {
            diffs += c17_helpers::<str>(alg, a, b, "str")?;
        }
        // a caller-side DiffableStr whose len() / slice() count characters instead of bytes
        if as_str.is_some() && alg == Algorithm::Myers {
            use crate::instr::Wc;
            let (wo, wn) = (Wc::new(old), Wc::new(new));
            for t in 0..N_TOK {
                if !tokenizer_available(t) {
                    continue;
                }
                subject(|| with_diff(t, alg, wo, wn, |d| c17_diff(d, wo, wn)))
                    .map_err(|p| format!("character-indexed DiffableStr {} {}: panic: {}", TOKENIZERS[t], alg_name(alg), p))?
                    .map_err(|e| format!("character-indexed DiffableStr {} {}: {}", TOKENIZERS[t], alg_name(alg), e))?;
                diffs += 1;
            }
            diffs += c17_helpers::<Wc>(alg, wo, wn, "character-indexed DiffableStr")?;
        }
    }
    Ok((nontrivial, total, fp.0, diffs))
}

// ---------------------------------------------------------------------------------------

fn spaces_for(tier: Tier) -> Vec<(&'static str, TextSpace)> {
    let mut mixed: Vec<&[u8]> = LETTERS_VALID[..5].to_vec();
    mixed.extend_from_slice(&LETTERS_INVALID);
    match tier {
        Tier::Quick => vec![
            ("valid", TextSpace::new(&LETTERS_VALID[..], 3)),
            ("invalid", TextSpace::new(&mixed, 3)),
        ],
        Tier::Thorough => vec![
            ("valid", TextSpace::new(&LETTERS_VALID[..], 4)),
            ("invalid", TextSpace::new(&mixed, 4)),
        ],
    }
}

fn text_case(old: &[u8], new: &[u8]) -> Value {
    json!({"old": old, "new": new, "old_lossy": String::from_utf8_lossy(old), "new_lossy": String::from_utf8_lossy(new)})
}

fn run_pairs(
    cfg: &RunCfg,
    rep: &mut CheckReport,
    f: fn(&[u8], &[u8]) -> Result<(bool, u64, u64, u64), String>,
) {
    let mut seen_valid_letters: Option<Vec<Vec<u8>>> = None;
    for (name, sp) in spaces_for(cfg.tier) {
        // the second space shares some letters with the first: skip pairs made only of letters
        // that the first space already covered (both texts valid UTF-8 and within its letters)
        let prev = seen_valid_letters.clone();
        let in_prev = |t: &[u8]| -> bool {
            match &prev {
                None => false,
                Some(letters) => {
                    // greedy letter decomposition (letters are prefix-free within a space)
                    let mut i = 0;
                    'outer: while i < t.len() {
                        for l in letters {
                            if t[i..].starts_with(l) {
                                i += l.len();
                                continue 'outer;
                            }
                        }
                        return false;
                    }
                    true
                }
            }
        };
        let covered: Vec<bool> = sp.texts.iter().map(|t| in_prev(t)).collect();
        let ex = explore(cfg, sp.texts.len(), |shard, acc| {
            let old = &sp.texts[shard];
            for (j, new) in sp.texts.iter().enumerate() {
                if covered[shard] && covered[j] {
                    continue;
                }
                match f(old, new) {
                    Ok((nt, tr, fp, diffs)) => {
                        if acc.want_sample() {
                            acc.sample(text_case(old, new));
                        }
                        acc.count("text_diffs", diffs);
                        acc.ok(nt, tr, fp);
                    }
                    Err(e) => acc.violation(|| (text_case(old, new), e)),
                }
                if acc.stop() {
                    return;
                }
            }
        });
        rep.part(name, sp.describe(), ex);
        if seen_valid_letters.is_none() {
            seen_valid_letters = Some(sp.letters.clone());
        }
    }
    if rep.has_violation() {
        return;
    }
    // enumerated rich corpus: single atoms, atom + LF, "a" + atom (thorough: + more contexts)
    let atoms = super::richtext::atoms();
    let mut texts: Vec<Vec<u8>> = vec![vec![]];
    let ctx: Vec<(&[u8], &[u8])> = match cfg.tier {
        Tier::Quick => vec![(b"", b""), (b"", b"\n"), (b"a", b"")],
        Tier::Thorough => vec![(b"", b""), (b"", b"\n"), (b"a", b""), (b" ", b" "), (b"a", b"b"), (b"\r", b"")],
    };
    for a in &atoms {
        for (pre, post) in &ctx {
            let mut t = pre.to_vec();
            t.extend_from_slice(a);
            t.extend_from_slice(post);
            texts.push(t);
        }
    }
    texts.sort();
    texts.dedup();
    let ex = explore(cfg, texts.len(), |shard, acc| {
        let old = &texts[shard];
        for new in &texts {
            match f(old, new) {
                Ok((nt, tr, fp, diffs)) => {
                    if acc.want_sample() {
                        acc.sample(text_case(old, new));
                    }
                    acc.count("text_diffs", diffs);
                    acc.ok(nt, tr, fp);
                }
                Err(e) => acc.violation(|| (text_case(old, new), e)),
            }
            if acc.stop() {
                return;
            }
        }
    });
    rep.part("rich-corpus", json!({"atoms": atoms.len(), "texts": texts.len(), "note": "enumerated family: other scripts, ZWJ emoji, flags, every separator, invalid sequences of 1-8 bytes"}), ex);
    if rep.has_violation() {
        return;
    }
    // long texts (more than 100 tokens for most tokenizers) derived from the large sequence
    // inputs; LCS is skipped above 400 bytes (its table is O(N*M))
    let inputs = super::large::all(cfg.tier, cfg.seed);
    let pairs = super::richtext::long_pairs(&inputs, cfg.tier.pick(130, 300));
    let ex = explore(cfg, pairs.len(), |shard, acc| {
        LCS_BYTE_CAP.with(|c| c.set(400));
        let (name, old, new) = &pairs[shard];
        let r = f(old.as_bytes(), new.as_bytes());
        LCS_BYTE_CAP.with(|c| c.set(usize::MAX));
        match r {
            Ok((nt, tr, fp, diffs)) => {
                if shard % 53 == 0 {
                    acc.sample(json!({"long_text_pair": name, "old_bytes": old.len(), "new_bytes": new.len()}));
                }
                acc.count("text_diffs", diffs);
                acc.ok(nt, tr, fp);
            }
            Err(e) => acc.violation(|| (text_case(old.as_bytes(), new.as_bytes()), format!("{}: {}", name, e))),
        }
    });
    rep.part("long-texts", json!({"pairs": pairs.len(), "source": super::large::describe(cfg.tier), "note": "enumerated family"}), ex);
}

pub fn c04_run(cfg: &RunCfg) -> CheckReport {
    let mut rep = CheckReport::new(
        "exploration",
        "every ordered pair of texts made of up to L letters of the listed alphabets (part 'valid': UTF-8 letters incl. LF, CR, combining mark, NBSP, regional indicator; part 'invalid': adds the byte letters FF, C3, E2 82; pairs already covered by the first part are skipped) x 6 constructors (lines, words, chars, unicode words, graphemes, slices of lines-and-newlines tokens) x 3 algorithms x {[u8], str when both texts are UTF-8}. One case = one text pair with all its configurations. Non-trivial: texts differ and some diff has >= 3 changes.",
    );
    rep.assume("oracle: byte-wise concatenation and index discipline; the tokenizers themselves are C06's business");
    rep.assume("besides &str and &[u8], the line and char constructors are also called with String, Cow<str> (owned / borrowed), Vec<u8> and Cow<[u8]> arguments");
    rep.assume("consumption modes (every iterator also consumed through nth/skip/step_by/take-then-rest/fold/count/last/peekable/find/zip/chain, size_hint a valid bound at every position): iter_all_changes and iter_changes of the first two and the last op; quick tier on text pairs of up to 5 bytes in total, thorough tier up to 8 bytes");
    run_pairs(cfg, &mut rep, c04_pair);
    rep
}

/// A text longer than 2^32 bytes through the remapping helpers (thorough tier only; needs
/// about 10 GiB of memory): byte offsets must not be narrowed anywhere.
fn c17_beyond_4gib() -> Result<u64, String> {
    use similar::utils;
    let mut old = "w".repeat(1usize << 32);
    old.push_str(" tail end");
    let new = String::from("x tail end");
    let mut n = 0u64;
    for which in 0..2 {
        let name = ["utils::diff_words", "TextDiffRemapper over diff_slices"][which];
        let res: Vec<(ChangeTag, &str)> = subject(|| {
            if which == 0 {
                utils::diff_words(Algorithm::Myers, &old[..], &new[..])
            } else {
                let o: Vec<&str> = vec![&old[..1usize << 32], " ", "tail", " ", "end"];
                let nn: Vec<&str> = vec!["x", " ", "tail", " ", "end"];
                let d = TextDiff::from_slices(&o, &nn);
                let r = TextDiffRemapper::from_text_diff(&d, &old[..], &new[..]);
                d.ops().iter().flat_map(|op| r.iter_slices(op)).collect()
            }
        })
        .map_err(|p| format!("{} on a text of 2^32+9 bytes: panic: {}", name, p))?;
        let (mut oo, mut nn) = (0usize, 0usize);
        for (tag, s) in &res {
            if s.is_empty() {
                return Err(format!("{} on a text of 2^32+9 bytes: empty {:?} slice", name, tag));
            }
            let in_old = *tag != ChangeTag::Insert;
            let in_new = *tag != ChangeTag::Delete;
            if in_old {
                if !old[oo..].starts_with(s) {
                    return Err(format!("{} on a text of 2^32+9 bytes: {:?} slice of {} bytes is not the old text at byte {}", name, tag, s.len(), oo));
                }
                oo += s.len();
            }
            if in_new {
                if !new[nn..].starts_with(s) {
                    return Err(format!("{} on a text of 2^32+9 bytes: {:?} slice of {} bytes is not the new text at byte {}", name, tag, s.len(), nn));
                }
                nn += s.len();
            }
            n += 1;
        }
        if oo != old.len() || nn != new.len() {
            return Err(format!(
                "{} on a text of 2^32+9 bytes: slices cover {} of {} old bytes and {} of {} new bytes",
                name,
                oo,
                old.len(),
                nn,
                new.len()
            ));
        }
    }
    Ok(n)
}

fn mem_available_gib() -> u64 {
    std::fs::read_to_string("/proc/meminfo")
        .ok()
        .and_then(|s| {
            s.lines()
                .find(|l| l.starts_with("MemAvailable:"))
                .and_then(|l| l.split_whitespace().nth(1).and_then(|x| x.parse::<u64>().ok()))
        })
        .map(|kb| kb >> 20)
        .unwrap_or(0)
}

pub fn c17_run(cfg: &RunCfg) -> CheckReport {
    let mut rep = CheckReport::new(
        "exploration",
        "same space of text pairs as C04; for every pair: TextDiffRemapper over 6 constructors x 3 algorithms x {[u8], str} compared with DiffOp::iter_slices (tags, concatenation, pointer identity with the original text, reconstruction), and the one-call helpers utils::diff_chars/words/unicode_words/graphemes/lines/slices (reconstruction, no empty slice, no panic). Non-trivial: some diff yields >= 2 remapped slices.",
    );
    rep.assume("pointer identity is checked on the byte pointers of the returned slices against the original text buffers");
    rep.assume("valid UTF-8 pairs are also remapped (Myers) as a caller-side DiffableStr whose len() and slice() count characters, not bytes");
    rep.assume("consumption modes: DiffOp::iter_slices and TextDiffRemapper::iter_slices of the first two and the last op of every diff; quick tier on text pairs of up to 5 bytes in total, thorough tier 3 bytes more");
    run_pairs(cfg, &mut rep, c17_pair);
    if !rep.has_violation() {
        // the same clauses for diffs made from a destructor while the thread exits
        const TEXTS: [(&str, &str); 4] = [("ab cd\nef\n", "ab xd\nef"), ("", "a"), ("\u{e9}a b", "a\u{e9} b"), ("x\ny\nz\n", "x\nz\n")];
        let ex = explore(cfg, TEXTS.len(), |shard, acc| {
            let (a, b) = TEXTS[shard];
            let r = at_thread_exit(
                move || {
                    for &alg in ALGS.iter() {
                        let _ = similar::utils::diff_chars(alg, a, b);
                        let _ = similar::utils::diff_words(alg, a, b);
                        let _ = similar::utils::diff_lines(alg, a, b);
                    }
                },
                move || c17_pair(a.as_bytes(), b.as_bytes()).map(|_| ()),
            );
            match r {
                Ok(()) => acc.ok(true, 1, shard as u64),
                Err(e) => acc.violation(|| {
                    let mut c = text_case(a.as_bytes(), b.as_bytes());
                    c["at_thread_exit"] = json!(true);
                    (c, format!("remapper / helpers used from a thread-local destructor at thread exit: {}", e))
                }),
            }
        });
        rep.part("thread-exit", json!({"texts": TEXTS.len(), "note": "the whole pair check run from the Drop of a thread-local value while its thread exits, after the same thread used the helpers"}), ex);
    }
    if cfg.tier == Tier::Thorough && !rep.has_violation() {
        let avail = mem_available_gib();
        if avail >= 20 {
            let ex = explore(cfg, 1, |_, acc| match c17_beyond_4gib() {
                Ok(n) => {
                    acc.sample(json!({"text_bytes": (1u64 << 32) + 9, "slices": n}));
                    acc.ok(true, n, n);
                    acc.ok(true, n, n + 1);
                }
                Err(e) => acc.violation(|| (json!({"beyond_4gib": true}), e)),
            });
            rep.part("text-beyond-4GiB", json!({"old_bytes": (1u64 << 32) + 9}), ex);
        } else {
            rep.extra.insert("text_beyond_4gib".into(), json!(format!("skipped: only {} GiB of memory available, 20 needed", avail)));
        }
    }
    rep
}

pub fn c04_replay(case: &Value) -> Result<String, String> {
    let old = parse_bytes(case, "old")?;
    let new = parse_bytes(case, "new")?;
    c04_pair(&old, &new).map(|r| format!("holds; {} changes, fingerprint {:x}", r.1, r.2))
}

pub fn c17_replay(case: &Value) -> Result<String, String> {
    if case.get("beyond_4gib").is_some() {
        return c17_beyond_4gib().map(|n| format!("holds; {} slices", n));
    }
    let old = parse_bytes(case, "old")?;
    let new = parse_bytes(case, "new")?;
    if case.get("at_thread_exit").is_some() {
        let (o2, n2) = (old.clone(), new.clone());
        return at_thread_exit(
            move || {
                for &alg in ALGS.iter() {
                    let _ = similar::utils::diff_chars(alg, &o2[..], &n2[..]);
                    let _ = similar::utils::diff_words(alg, &o2[..], &n2[..]);
                }
            },
            move || c17_pair(&old, &new).map(|_| ()),
        )
        .map(|_| "holds".to_string());
    }
    c17_pair(&old, &new).map(|r| format!("holds; {} slices, fingerprint {:x}", r.1, r.2))
}
