//! C15 — Patience keeps a maximum in-order set of unique common items.

use super::common::*;
use crate::engine::*;
use crate::instr::Call;
use crate::oracles::*;
use crate::spaces::*;
use serde_json::{json, Value};
use similar::{Algorithm, DiffTag};

/// (old position, new position) of every value that occurs exactly once in old and exactly
/// once in new, in old order.
fn unique_common(old: &[u8], new: &[u8]) -> Vec<(usize, usize)> {
    let mut co = [0u8; 256];
    let mut cn = [0u8; 256];
    for &x in old {
        co[x as usize] = co[x as usize].saturating_add(1);
    }
    for &x in new {
        cn[x as usize] = cn[x as usize].saturating_add(1);
    }
    let mut v = vec![];
    for (i, &x) in old.iter().enumerate() {
        if co[x as usize] == 1 && cn[x as usize] == 1 {
            let j = new.iter().position(|&y| y == x).unwrap();
            v.push((i, j));
        }
    }
    v
}

/// longest chain increasing on both sides (O(m^2))
fn lis(pairs: &[(usize, usize)]) -> usize {
    let mut best = vec![0usize; pairs.len()];
    let mut mx = 0;
    for i in 0..pairs.len() {
        best[i] = 1;
        for j in 0..i {
            if pairs[j].1 < pairs[i].1 && best[j] + 1 > best[i] {
                best[i] = best[j] + 1;
            }
        }
        mx = mx.max(best[i]);
    }
    mx
}

pub fn check_pair(old: &[u8], new: &[u8]) -> Result<(bool, u64, u64), String> {
    let (n, m) = (old.len(), new.len());
    let u = unique_common(old, new);
    let l = lis(&u);
    let is_anchor = |i: usize, j: usize| u.iter().any(|&(a, b)| a == i && b == j);
    // raw stream
    let calls = raw_stream(Algorithm::Patience, 0, old, 0..n, new, 0..m)?;
    let mut matched = 0;
    for c in &calls {
        if let Call::Eq(o, nn, len) = *c {
            for d in 0..len {
                if o + d < n && nn + d < m && is_anchor(o + d, nn + d) {
                    matched += 1;
                }
            }
        }
    }
    if matched != l {
        return Err(format!(
            "raw Patience stream pairs {} of the {} items that are unique on both sides; the longest in-order chain has {} [stream: {}]",
            matched,
            u.len(),
            l,
            crate::instr::calls_to_string(&calls)
        ));
    }
    let ops = capture(Algorithm::Patience, old, 0..n, new, 0..m)?;
    let mut matched = 0;
    for op in &ops {
        if op.tag() == DiffTag::Equal {
            for (i, j) in op.old_range().zip(op.new_range()) {
                if is_anchor(i, j) {
                    matched += 1;
                }
            }
        }
    }
    if matched != l {
        return Err(format!(
            "captured Patience ops pair {} of the {} items that are unique on both sides; the longest in-order chain has {} [ops: {:?}]",
            matched,
            u.len(),
            l,
            ops
        ));
    }
    // the same input with old and new in different element types (equal items hash differently)
    {
        use crate::instr::{Hi, Lo};
        let o: Vec<Lo> = old.iter().map(|&x| Lo(x as u32)).collect();
        let nn: Vec<Hi> = new.iter().map(|&x| Hi(x as u64)).collect();
        let hops = subject(|| similar::capture_diff(Algorithm::Patience, &o[..], 0..n, &nn[..], 0..m))
            .map_err(|p| format!("heterogeneous element types: panic: {}", p))?;
        let mut matched = 0;
        for op in &hops {
            if op.tag() == DiffTag::Equal {
                for (i, j) in op.old_range().zip(op.new_range()) {
                    if is_anchor(i, j) {
                        matched += 1;
                    }
                }
            }
        }
        if matched != l {
            return Err(format!(
                "with old items of type Lo(u32) and new items of type Hi(u64), captured Patience ops pair {} of the {} items that are unique on both sides; the longest in-order chain has {} [ops: {:?}]",
                matched,
                u.len(),
                l,
                hops
            ));
        }
    }
    // ONE sequence object on both sides, the two inputs being two ranges of it (raw and
    // captured); and the same diff right after a Patience diff of another input on this thread
    {
        let both: Vec<u8> = old.iter().chain(new.iter()).copied().collect();
        let ops2 = capture(Algorithm::Patience, &both[..], 0..n, &both[..], n..n + m)?;
        let calls2 = raw_stream(Algorithm::Patience, 0, &both[..], 0..n, &both[..], n..n + m)?;
        let mut matched_ops = 0;
        for op in &ops2 {
            if op.tag() == DiffTag::Equal {
                for (i, j) in op.old_range().zip(op.new_range()) {
                    if j >= n && is_anchor(i, j - n) {
                        matched_ops += 1;
                    }
                }
            }
        }
        let mut matched_raw = 0;
        for c in &calls2 {
            if let Call::Eq(o, nn, len) = *c {
                for d in 0..len {
                    if nn + d >= n && is_anchor(o + d, nn + d - n) {
                        matched_raw += 1;
                    }
                }
            }
        }
        if matched_ops != l || matched_raw != l {
            return Err(format!(
                "one sequence {:?} on both sides with ranges {:?} and {:?}: Patience pairs {} (captured) / {} (raw) of the {} items that are unique on both sides; the longest in-order chain has {} [ops: {:?}]",
                both, 0..n, n..n + m, matched_ops, matched_raw, u.len(), l, ops2
            ));
        }
        const EARLIER: [(&[u8], &[u8]); 2] = [(&[0, 0, 1, 1, 2, 2, 3, 3, 0, 0], &[0, 1, 2, 3, 4]), (&[4, 3, 2, 1, 0], &[1, 1, 0, 0])];
        for (a, b) in EARLIER.iter() {
            let _ = capture(Algorithm::Patience, *a, 0..a.len(), *b, 0..b.len())?;
            let ops3 = capture(Algorithm::Patience, old, 0..n, new, 0..m)?;
            let mut matched3 = 0;
            for op in &ops3 {
                if op.tag() == DiffTag::Equal {
                    for (i, j) in op.old_range().zip(op.new_range()) {
                        if is_anchor(i, j) {
                            matched3 += 1;
                        }
                    }
                }
            }
            if matched3 != l {
                return Err(format!(
                    "captured Patience ops computed right after a Patience diff of {:?} / {:?} on the same thread pair {} of the {} items that are unique on both sides; the longest in-order chain has {} [ops: {:?}; on their own: {:?}]",
                    a, b, matched3, u.len(), l, ops3, ops
                ));
            }
        }
    }
    let mut fp = Fp::new();
    fp.add(ops_fp(&ops));
    fp.add(l as u64);
    Ok((l >= 2, calls.len() as u64 + ops.len() as u64, fp.0))
}

/// structured space: m unique items, old in identity order, new in permutation `perm`, with
/// up to two copies of a junk value inserted at every combination of positions on each side
fn placements(m: usize) -> Vec<Vec<usize>> {
    let mut v = vec![vec![]];
    for a in 0..=m {
        v.push(vec![a]);
    }
    for a in 0..=m {
        for b in a..=m {
            v.push(vec![a, b]);
        }
    }
    v
}

fn with_junk(base: &[u8], pos: &[usize], junk: u8) -> Vec<u8> {
    let mut out = vec![];
    for i in 0..=base.len() {
        for &p in pos {
            if p == i {
                out.push(junk);
            }
        }
        if i < base.len() {
            out.push(base[i]);
        }
    }
    out
}

pub fn run(cfg: &RunCfg) -> CheckReport {
    let mut rep = CheckReport::new(
        "exploration",
        "part 'pairs': every pair of the listed scopes, Patience raw stream and captured ops; part 'permutations': m unique items (old in identity order, new in every one of the m! orders) with up to two copies of a junk value inserted at every combination of positions on each side. Oracle: the number of unique-on-both-sides items paired inside Equal must equal the longest chain increasing on both sides. Non-trivial: that chain has length >= 2. Cases distinct by construction within a part.",
    );
    rep.assume("oracle: O(m^2) longest-increasing-chain in the harness");
    let space = PairSpace::new(match cfg.tier {
        Tier::Quick => vec![
            Scope::P { k: 4, n: 5 },
            Scope::P { k: 6, n: 4 },
            Scope::R { l: 10 },
        ],
        Tier::Thorough => vec![
            Scope::P { k: 4, n: 6 },
            Scope::P { k: 6, n: 4 },
            Scope::P { k: 5, n: 5 },
            Scope::R { l: 12 },
        ],
    });
    let ex = explore(cfg, space.nshards(), |shard, acc| {
        space.for_each(shard, |old, new| {
            match check_pair(old, new) {
                Ok((nt, tr, fp)) => {
                    if acc.want_sample() {
                        acc.sample(json!({"old": old, "new": new}));
                    }
                    acc.ok(nt, tr, fp);
                }
                Err(e) => acc.violation(|| (json!({"old": old, "new": new}), e)),
            }
            !acc.stop()
        });
    });
    rep.part("pairs", json!({"scopes": space.describe()}), ex);
    if rep.has_violation() {
        return rep;
    }
    let ms: Vec<usize> = cfg.tier.pick(vec![3, 4, 5, 6], vec![3, 4, 5, 6, 7]);
    // shards: (m, permutation index chunk)
    let mut shards = vec![];
    for &m in &ms {
        let mut p: Vec<u8> = (0..m as u8).collect();
        loop {
            shards.push((m, p.clone()));
            if !next_permutation(&mut p) {
                break;
            }
        }
    }
    let ex = explore(cfg, shards.len(), |shard, acc| {
        let (m, perm) = &shards[shard];
        let ident: Vec<u8> = (0..*m as u8).collect();
        let pl = placements(*m);
        for po in &pl {
            let old = with_junk(&ident, po, 100);
            for pn in &pl {
                let new = with_junk(perm, pn, 100);
                match check_pair(&old, &new) {
                    Ok((nt, tr, fp)) => {
                        if acc.want_sample() {
                            acc.sample(json!({"old": old, "new": new}));
                        }
                        acc.ok(nt, tr, fp);
                    }
                    Err(e) => acc.violation(|| (json!({"old": old, "new": new}), e)),
                }
                if acc.stop() {
                    return;
                }
            }
        }
    });
    rep.part("permutations", json!({"unique_items": ms, "junk_copies_per_side": "0..=2, every placement"}), ex);
    if !rep.has_violation() {
        super::large::run_part(cfg, &mut rep, &[Algorithm::Patience], &|_| usize::MAX, check_large);
    }
    rep
}

/// the same oracle on one large input (u32 items)
pub fn check_large(_alg: Algorithm, inp: &super::large::LargeInput) -> Result<(bool, u64, u64), String> {
    use std::collections::HashMap;
    let (old, new) = (&inp.old[..], &inp.new[..]);
    let (n, m) = (old.len(), new.len());
    let mut co: HashMap<u32, (usize, usize)> = HashMap::new();
    for (i, &x) in old.iter().enumerate() {
        let e = co.entry(x).or_insert((0, i));
        e.0 += 1;
    }
    let mut cn: HashMap<u32, (usize, usize)> = HashMap::new();
    for (j, &x) in new.iter().enumerate() {
        let e = cn.entry(x).or_insert((0, j));
        e.0 += 1;
    }
    let mut u: Vec<(usize, usize)> = vec![];
    for (i, &x) in old.iter().enumerate() {
        if co[&x].0 == 1 {
            if let Some(&(1, j)) = cn.get(&x) {
                u.push((i, j));
            }
        }
    }
    let l = lis(&u);
    let anchor_of: HashMap<usize, usize> = u.iter().copied().collect();
    let ops = capture(Algorithm::Patience, old, 0..n, new, 0..m)?;
    let mut matched = 0;
    for op in &ops {
        if op.tag() == DiffTag::Equal {
            for (i, j) in op.old_range().zip(op.new_range()) {
                if anchor_of.get(&i) == Some(&j) {
                    matched += 1;
                }
            }
        }
    }
    if matched != l {
        return Err(format!(
            "captured Patience ops pair {} of the {} items that are unique on both sides; the longest in-order chain has {}",
            matched,
            u.len(),
            l
        ));
    }
    // the same through the text API (lines), which maps items to integers above 100 tokens
    let so: Vec<String> = old.iter().map(|x| format!("{}\n", x)).collect();
    let sn: Vec<String> = new.iter().map(|x| format!("{}\n", x)).collect();
    let (to, tn) = (so.concat(), sn.concat());
    let tops = subject(|| {
        similar::TextDiff::configure()
            .algorithm(Algorithm::Patience)
            .diff_lines(&to, &tn)
            .ops()
            .to_vec()
    })
    .map_err(|p| format!("TextDiff: panic: {}", p))?;
    let mut matched = 0;
    for op in &tops {
        if op.tag() == DiffTag::Equal {
            for (i, j) in op.old_range().zip(op.new_range()) {
                if anchor_of.get(&i) == Some(&j) {
                    matched += 1;
                }
            }
        }
    }
    if matched != l {
        return Err(format!(
            "TextDiff (Patience, lines) pairs {} of the {} lines that are unique on both sides; the longest in-order chain has {}",
            matched,
            u.len(),
            l
        ));
    }
    Ok((l >= 2, ops.len() as u64, ops_fp(&ops)))
}

pub fn replay(case: &Value) -> Result<String, String> {
    if let Some(r) = super::large::resolve(case) {
        let (alg, inp) = r?;
        return check_large(alg, &inp).map(|o| format!("holds; fingerprint {:x}", o.2));
    }
    let old = parse_seq(case, "old")?;
    let new = parse_seq(case, "new")?;
    check_pair(&old, &new).map(|r| format!("holds; fingerprint {:x}", r.2))
}
