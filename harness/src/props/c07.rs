//! C07 — deadline expiry at any point still yields a valid, prompt diff; deadlines are plumbed.
//!
//! Fault enumeration over the environment answer "has the deadline passed?": the virtual
//! clock (hook H1) flips to "exceeded" at probe k, for every k.

use super::cap::toks;
use super::common::*;
use crate::engine::*;
use crate::instr::{arm_clock, calls_to_string, cmp_count, some_deadline, Call, Cnt, Rec};
use crate::oracles::*;
use crate::spaces::*;
use serde_json::{json, Value};
use similar::{Algorithm, DiffOp, TextDiff};
use std::time::Duration;

fn cnt(v: &[u8]) -> Vec<Cnt> {
    v.iter().map(|&x| Cnt(x as u32)).collect()
}

pub struct RawRun {
    pub calls: Vec<Call>,
    pub probes: u64,
    /// comparisons performed after the clock first answered "exceeded"
    pub cmp_after: Option<u64>,
    /// comparisons performed by the whole run
    pub cmp_total: u64,
}

/// entry: 1 = algorithms::diff_deadline, 3 = <alg>::diff_deadline, 4 = diff_slices_deadline
pub fn raw_deadline(
    alg: Algorithm,
    entry: usize,
    old: &[Cnt],
    new: &[Cnt],
    k: Option<u64>,
    with_deadline: bool,
) -> Result<RawRun, String> {
    let (n, m) = (old.len(), new.len());
    let mut rec = Rec::new();
    let mut probes = 0;
    let mut cmp_after = None;
    let mut cmp_total = 0;
    let r = subject(|| {
        let c0 = cmp_count();
        let clock = arm_clock(k.unwrap_or(u64::MAX));
        let dl = if with_deadline { some_deadline() } else { None };
        let r = if entry == 4 {
            similar::algorithms::diff_slices_deadline(alg, &mut rec, old, new, dl)
        } else {
            raw_into(alg, entry, &mut rec, old, 0..n, new, 0..m, dl)
        };
        probes = clock.probes.get();
        cmp_after = clock.cmp_at_expiry.get().map(|c| cmp_count() - c);
        cmp_total = cmp_count() - c0;
        r
    });
    match r {
        Err(p) => Err(format!("panic: {}", p)),
        Ok(Err(e)) => Err(format!("diff returned Err({}) although no hook call failed", e)),
        Ok(Ok(())) => Ok(RawRun {
            calls: rec.calls,
            probes,
            cmp_after,
            cmp_total,
        }),
    }
}

fn captured_deadline(
    which: usize,
    alg: Algorithm,
    old: &[u8],
    new: &[u8],
    k: u64,
) -> Result<(Vec<DiffOp>, u64), String> {
    let (n, m) = (old.len(), new.len());
    let mut probes = 0;
    let names = [
        "capture_diff_deadline",
        "capture_diff_slices_deadline",
        "TextDiff::configure().deadline(..)",
        "TextDiff::configure().timeout(..)",
        "TextDiff::configure().deadline(..).clone()",
        "TextDiff::configure().timeout(..).clone()",
    ];
    let r = subject(|| {
        let clock = arm_clock(k);
        let ops = match which {
            0 => similar::capture_diff_deadline(alg, old, 0..n, new, 0..m, some_deadline()),
            1 => similar::capture_diff_slices_deadline(alg, old, new, some_deadline()),
            2 => {
                let (o, nn) = (toks(old), toks(new));
                TextDiff::configure()
                    .algorithm(alg)
                    .deadline(some_deadline().unwrap())
                    .diff_slices(&o, &nn)
                    .ops()
                    .to_vec()
            }
            3 => {
                let (o, nn) = (toks(old), toks(new));
                TextDiff::configure()
                    .algorithm(alg)
                    .timeout(Duration::from_secs(86_400))
                    .diff_slices(&o, &nn)
                    .ops()
                    .to_vec()
            }
            // a cloned configuration carries the same limit
            4 => {
                let (o, nn) = (toks(old), toks(new));
                let mut c = TextDiff::configure();
                c.algorithm(alg).deadline(some_deadline().unwrap());
                let c2 = c.clone();
                c2.diff_slices(&o, &nn).ops().to_vec()
            }
            _ => {
                let (o, nn) = (toks(old), toks(new));
                let mut c = TextDiff::configure();
                c.algorithm(alg).timeout(Duration::from_secs(86_400));
                let c2 = c.clone();
                c2.diff_slices(&o, &nn).ops().to_vec()
            }
        };
        probes = clock.probes.get();
        ops
    })
    .map_err(|p| format!("{} with expiry at probe {}: panic: {}", names[which], k, p))?;
    Ok((r, probes))
}

/// post-expiry comparison budget: a small constant multiple of N+M
pub fn prompt_bound(n: usize, m: usize) -> u64 {
    8 * (n + m) as u64 + 32
}

pub struct Out {
    pub nontrivial: bool,
    pub transitions: u64,
    pub fp: u64,
    pub runs: u64,
    pub probes: u64,
    pub worst_after: f64,
}

/// All C07 clauses for one (algorithm, input): every expiry point k.  `deep` adds the
/// secondary entry points and the captured / builder paths for every k.
pub fn check_input(alg: Algorithm, old8: &[u8], new8: &[u8], deep: bool) -> Result<Out, String> {
    let old = cnt(old8);
    let new = cnt(new8);
    let (n, m) = (old.len(), new.len());
    let mut runs = 0u64;
    let mut transitions = 0u64;
    let mut fp = Fp::new();
    let mut worst_after = 0f64;

    // no deadline: never consults the clock
    let none = raw_deadline(alg, 1, &old, &new, None, false)
        .map_err(|e| format!("deadline None: {}", e))?;
    runs += 1;
    if none.probes != 0 {
        return Err(format!(
            "deadline None consulted the clock {} times",
            none.probes
        ));
    }
    // never-expiring deadline == no deadline
    let inf = raw_deadline(alg, 1, &old, &new, None, true)
        .map_err(|e| format!("never-expiring deadline: {}", e))?;
    runs += 1;
    if inf.calls != none.calls {
        return Err(format!(
            "a deadline that never expires gives [{}] but no deadline gives [{}]",
            calls_to_string(&inf.calls),
            calls_to_string(&none.calls)
        ));
    }
    validate_stream(&inf.calls, &old, 0..n, &new, 0..m, true)
        .map_err(|e| format!("never-expiring deadline: {}", e))?;
    let pinf = inf.probes;
    fp.add(calls_fp(&inf.calls));
    transitions += inf.calls.len() as u64;

    let cap_none = subject(|| similar::capture_diff(alg, old8, 0..n, new8, 0..m))
        .map_err(|p| format!("capture_diff: panic: {}", p))?;
    let mut cap_probes_inf = [0u64; 6];
    for which in 0..6 {
        let (ops, probes) = captured_deadline(which, alg, old8, new8, u64::MAX)?;
        runs += 1;
        cap_probes_inf[which] = probes;
        if ops != cap_none {
            return Err(format!(
                "captured entry point #{} with a never-expiring deadline gives {:?} but no deadline gives {:?}",
                which, ops, cap_none
            ));
        }
        // plumbing: a configured deadline/timeout must reach the algorithm
        if (probes > 0) != (pinf > 0) {
            return Err(format!(
                "captured entry point #{} ({}) consulted the clock {} times, the raw algorithm {} times: the deadline is not plumbed through",
                which,
                ["capture_diff_deadline", "capture_diff_slices_deadline", "TextDiffConfig::deadline", "TextDiffConfig::timeout", "a clone of a TextDiffConfig with a deadline", "a clone of a TextDiffConfig with a timeout"][which],
                probes,
                pinf
            ));
        }
    }

    // limits that can never expire, against the REAL clock (virtual clock disarmed): the largest
    // representable timeout, one beyond what an Instant can hold, a deadline a century away
    for (i, name) in ["timeout(Duration::MAX)", "timeout(Duration::from_secs(u64::MAX))", "timeout(10^11 s)", "deadline(now + 100 years)"].iter().enumerate() {
        let ops = subject(|| {
            crate::instr::disarm_all();
            let (o, nn) = (toks(old8), toks(new8));
            let mut c = TextDiff::configure();
            c.algorithm(alg);
            match i {
                0 => c.timeout(Duration::MAX),
                1 => c.timeout(Duration::from_secs(u64::MAX)),
                2 => c.timeout(Duration::from_secs(100_000_000_000)),
                _ => c.deadline(std::time::Instant::now() + Duration::from_secs(3_155_760_000)),
            };
            c.diff_slices(&o, &nn).ops().to_vec()
        })
        .map_err(|p| format!("TextDiff::configure().{}: panic: {}", name, p))?;
        runs += 1;
        if ops != cap_none {
            return Err(format!(
                "TextDiff::configure().{} (a limit that never expires) gives {:?} but no deadline gives {:?}",
                name, ops, cap_none
            ));
        }
    }
    // deadline already expired before the start: the whole run must be cheap, whether or not
    // the algorithm ever asks the clock
    {
        let r = raw_deadline(alg, 1, &old, &new, Some(0), true)
            .map_err(|e| format!("deadline expired before the start: {}", e))?;
        runs += 1;
        validate_stream(&r.calls, &old, 0..n, &new, 0..m, true)
            .map_err(|e| format!("deadline expired before the start: {}", e))?;
        if r.cmp_total > prompt_bound(n, m) {
            return Err(format!(
                "deadline expired before the start: {} element comparisons in total, bound 8*(N+M)+32 = {}",
                r.cmp_total,
                prompt_bound(n, m)
            ));
        }
    }
    for k in 0..pinf {
        let r = raw_deadline(alg, 1, &old, &new, Some(k), true)
            .map_err(|e| format!("expiry at probe {}: {}", k, e))?;
        runs += 1;
        transitions += r.calls.len() as u64;
        validate_stream(&r.calls, &old, 0..n, &new, 0..m, true).map_err(|e| {
            format!(
                "expiry at probe {}: {} [stream: {}]",
                k,
                e,
                calls_to_string(&r.calls)
            )
        })?;
        fp.add(calls_fp(&r.calls));
        match r.cmp_after {
            None => {
                return Err(format!(
                    "expiry at probe {}: the run made only {} probes although the never-expiring run makes {}",
                    k, r.probes, pinf
                ))
            }
            Some(c) => {
                let bound = prompt_bound(n, m);
                let ratio = c as f64 / (n + m).max(1) as f64;
                if ratio > worst_after {
                    worst_after = ratio;
                }
                if c > bound {
                    return Err(format!(
                        "expiry at probe {}: {} element comparisons after expiry, bound 8*(N+M)+32 = {}",
                        k, c, bound
                    ));
                }
            }
        }
        // history: right after a diff whose deadline expired at probe k (same thread), a diff
        // with no deadline and one with a never-expiring deadline still give the plain result
        if k == 0 || k + 1 == pinf || k == pinf / 2 {
            for never in [false, true] {
                let again = raw_deadline(alg, 1, &old, &new, None, never)
                    .map_err(|e| format!("after an expiry at probe {}: {}", k, e))?;
                runs += 1;
                if again.calls != none.calls {
                    return Err(format!(
                        "right after a diff whose deadline expired at probe {}, a diff with {} gives [{}]; on its own it gives [{}]",
                        k,
                        if never { "a never-expiring deadline" } else { "no deadline" },
                        calls_to_string(&again.calls),
                        calls_to_string(&none.calls)
                    ));
                }
            }
        }
        if deep {
            // the same expiry point on a sub-range embedding read through a window Index: the
            // fallback paths must report absolute positions and stay inside the ranges too
            let (po, pn) = (3usize, 5usize);
            let fo = embed(old8, po, 2, new8);
            let fnw = embed(new8, pn, 2, old8);
            let (fo, fnw) = (cnt(&fo), cnt(&fnw));
            let mut rec = Rec::new();
            let sub = subject(|| {
                let _clock = arm_clock(k);
                let wo = crate::instr::Win { data: &fo, lo: po, hi: po + n };
                let wn = crate::instr::Win { data: &fnw, lo: pn, hi: pn + m };
                raw_into(alg, 1, &mut rec, &wo, po..po + n, &wn, pn..pn + m, some_deadline())
            });
            runs += 1;
            match sub {
                Err(p) => return Err(format!("expiry at probe {} on sub-ranges old {:?} new {:?}: panic: {}", k, po..po + n, pn..pn + m, p)),
                Ok(Err(e)) => return Err(format!("expiry at probe {} on sub-ranges: diff returned Err({})", k, e)),
                Ok(Ok(())) => {}
            }
            let want: Vec<Call> = r.calls.iter().map(|c| c.shifted(po, pn)).collect();
            if rec.calls != want {
                return Err(format!(
                    "expiry at probe {}: on sub-ranges old {:?} new {:?} the stream is [{}], but the stream on the extracted slices shifted by the range starts is [{}]",
                    k, po..po + n, pn..pn + m, calls_to_string(&rec.calls), calls_to_string(&want)
                ));
            }
            for entry in [3usize, 4] {
                let r2 = raw_deadline(alg, entry, &old, &new, Some(k), true)
                    .map_err(|e| format!("entry {} expiry at probe {}: {}", entry, k, e))?;
                runs += 1;
                if r2.calls != r.calls {
                    return Err(format!(
                        "expiry at probe {}: entry point {} gives [{}], algorithms::diff_deadline gives [{}]",
                        k,
                        if entry == 3 { "<alg>::diff_deadline" } else { "diff_slices_deadline" },
                        calls_to_string(&r2.calls),
                        calls_to_string(&r.calls)
                    ));
                }
            }
        }
    }
    // captured / builder paths: every expiry point of *their* probe sequence
    let kmax = if deep { cap_probes_inf[0] } else { cap_probes_inf[0].min(1) };
    for k in 0..kmax {
        let (ops0, _) = captured_deadline(0, alg, old8, new8, k)?;
        runs += 1;
        transitions += ops0.len() as u64;
        validate_ops(&ops0, old8, 0..n, new8, 0..m, false).map_err(|e| {
            format!(
                "capture_diff_deadline, expiry at probe {}: {} [ops: {:?}]",
                k, e, ops0
            )
        })?;
        fp.add(ops_fp(&ops0));
        for which in 1..6 {
            let (ops, _) = captured_deadline(which, alg, old8, new8, k)?;
            runs += 1;
            if ops != ops0 {
                return Err(format!(
                    "expiry at probe {}: captured entry point #{} gives {:?} but capture_diff_deadline gives {:?} (deadline not plumbed identically)",
                    k, which, ops, ops0
                ));
            }
        }
    }
    Ok(Out {
        nontrivial: pinf > 0,
        transitions,
        fp: fp.0,
        runs,
        probes: pinf,
        worst_after,
    })
}

// ---- virtual time: the VALUE of the configured deadline / timeout matters ------------------

/// For every k: a deadline placed between probe k-1 and probe k of the virtual time line must
/// expire exactly at probe k, however it was configured: capture_diff_deadline, builder
/// deadline(), builder timeout(), and the two setter sequences on which "the last setter wins"
/// and "the earliest limit wins" agree (far limit first, then the short one).
pub fn check_virtual_time(alg: Algorithm, old: &[u8], new: &[u8]) -> Result<(bool, u64, u64), String> {
    use crate::instr::{arm_virtual_time, vt};
    let (n, m) = (old.len(), new.len());
    let (o, nn) = (toks(old), toks(new));
    let (_, pinf) = captured_deadline(0, alg, old, new, u64::MAX)?;
    let mut fp = Fp::new();
    let mut runs = 0;
    let far = vt(1_000_000, false);
    for k in 0..=pinf {
        // reference: index-based clock expiring at probe k (k == pinf: never within this run)
        let (want, _) = captured_deadline(0, alg, old, new, if k == pinf { u64::MAX } else { k })?;
        let deadline = if k == 0 { vt(0, false) - Duration::from_millis(500) } else { vt(k - 1, true) };
        let timeout_ms = if k == 0 { 0 } else { (k - 1) * 1000 + 500 };
        let variants: [&str; 6] = [
            "capture_diff_deadline(Some(instant))",
            "builder.deadline(instant)",
            "builder.timeout(duration)",
            "builder.deadline(far).timeout(duration)",
            "builder.timeout(far).deadline(instant)",
            "builder.timeout(duration) configured once, used for two diffs",
        ];
        for (vi, name) in variants.iter().enumerate() {
            if k == 0 && (vi == 2 || vi == 3 || vi == 5) {
                // a zero timeout is "now", which is not strictly exceeded at probe 0
                continue;
            }
            let got = subject(|| {
                let _clock = arm_virtual_time();
                let mut c = TextDiff::configure();
                c.algorithm(alg);
                match vi {
                    0 => return similar::capture_diff_deadline(alg, old, 0..n, new, 0..m, Some(deadline)),
                    1 => {
                        c.deadline(deadline);
                    }
                    2 | 5 => {
                        c.timeout(Duration::from_millis(timeout_ms));
                    }
                    3 => {
                        c.deadline(far);
                        c.timeout(Duration::from_millis(timeout_ms));
                    }
                    _ => {
                        c.timeout(Duration::from_secs(1_000_000));
                        c.deadline(deadline);
                    }
                }
                if vi == 5 {
                    // the relative timeout is resolved per diff: a first diff must not move it
                    let _ = c.diff_slices(&o, &nn).ops().len();
                    let _clock2 = arm_virtual_time();
                    return c.diff_slices(&o, &nn).ops().to_vec();
                }
                c.diff_slices(&o, &nn).ops().to_vec()
            })
            .map_err(|p| format!("{}: panic: {}", name, p))?;
            runs += 1;
            if got != want {
                return Err(format!(
                    "{} with a limit that falls between probe {} and probe {} of the virtual time line gives {:?}; expiry at exactly probe {} gives {:?} (the configured value does not reach the algorithm unchanged)",
                    name,
                    k as i64 - 1,
                    k,
                    got,
                    k,
                    want
                ));
            }
            fp.add(ops_fp(&got));
        }
    }
    Ok((pinf > 0, runs, fp.0))
}

// ---- large-input families (promptness) ---------------------------------------------------

pub fn families32(n: usize, seed: u64) -> Vec<(String, Vec<u32>, Vec<u32>)> {
    let mut out = vec![];
    let nn = n as u32;
    // unrelated: no common item at all
    out.push((
        format!("unrelated-{}", n),
        (0..nn).collect(),
        (nn..2 * nn).collect(),
    ));
    // reversed: all items common and unique, opposite order
    out.push((
        format!("reversed-{}", n),
        (0..nn).collect(),
        (0..nn).rev().collect(),
    ));
    // 4-symbol pseudo-random text, independent sides
    let mut g = Lcg(0x5eed ^ seed ^ n as u64);
    out.push((
        format!("lcg4-independent-{}", n),
        (0..n).map(|_| g.below(4) as u32).collect(),
        (0..n).map(|_| g.below(4) as u32).collect(),
    ));
    // few anchors with large unrelated gaps (Patience forwards the gaps to Myers)
    let mut a = vec![];
    let mut b = vec![];
    let gap = n / 4;
    for anchor in 0..4u32 {
        a.push(1000 + anchor);
        b.push(1000 + anchor);
        for i in 0..gap {
            a.push((i % 3) as u32);
            b.push(3 + (i % 2) as u32);
        }
    }
    out.push((format!("anchors-with-unrelated-gaps-{}", n), a, b));
    // near-identical 4-symbol text with a few edits
    let base: Vec<u32> = (0..n).map(|_| g.below(4) as u32).collect();
    let mut edited = base.clone();
    for i in 0..5 {
        let pos = (n * (i + 1)) / 7;
        edited[pos] = 7;
    }
    edited.remove(n / 2);
    out.push((format!("near-identical-{}", n), base, edited));
    out
}

pub fn check_family(alg: Algorithm, name: &str, old: &[u32], new: &[u32]) -> Result<Out, String> {
    let old: Vec<Cnt> = old.iter().map(|&x| Cnt(x)).collect();
    let new: Vec<Cnt> = new.iter().map(|&x| Cnt(x)).collect();
    let (n, m) = (old.len(), new.len());
    let inf = raw_deadline(alg, 1, &old, &new, None, true)?;
    validate_stream(&inf.calls, &old, 0..n, &new, 0..m, true)
        .map_err(|e| format!("{}: never-expiring deadline: {}", name, e))?;
    let mut worst = 0f64;
    let mut runs = 1;
    let mut transitions = inf.calls.len() as u64;
    let mut fp = Fp::new();
    {
        let r = raw_deadline(alg, 1, &old, &new, Some(0), true)
            .map_err(|e| format!("{}: deadline expired before the start: {}", name, e))?;
        runs += 1;
        validate_stream(&r.calls, &old, 0..n, &new, 0..m, true)
            .map_err(|e| format!("{}: deadline expired before the start: {}", name, e))?;
        let ratio = r.cmp_total as f64 / (n + m) as f64;
        if ratio > worst {
            worst = ratio;
        }
        if r.cmp_total > prompt_bound(n, m) {
            return Err(format!(
                "{} ({} vs {} items): deadline expired before the start, yet {} element comparisons in total, bound 8*(N+M)+32 = {}",
                name, n, m, r.cmp_total, prompt_bound(n, m)
            ));
        }
    }
    for k in 0..inf.probes {
        let r = raw_deadline(alg, 1, &old, &new, Some(k), true)
            .map_err(|e| format!("{}: expiry at probe {}: {}", name, k, e))?;
        runs += 1;
        transitions += r.calls.len() as u64;
        validate_stream(&r.calls, &old, 0..n, &new, 0..m, true)
            .map_err(|e| format!("{}: expiry at probe {}: {}", name, k, e))?;
        fp.add(calls_fp(&r.calls));
        let c = r.cmp_after.ok_or_else(|| {
            format!("{}: expiry at probe {}: clock never reached probe {}", name, k, k)
        })?;
        let ratio = c as f64 / (n + m) as f64;
        if ratio > worst {
            worst = ratio;
        }
        if c > prompt_bound(n, m) {
            return Err(format!(
                "{} ({} vs {} items): expiry at probe {}: {} element comparisons after expiry, bound 8*(N+M)+32 = {}",
                name, n, m, k, c, prompt_bound(n, m)
            ));
        }
    }
    // builder plumbing above the 100-token switch (the text diff maps items to integers there)
    let so: Vec<String> = old.iter().map(|c| format!("{}\n", c.0)).collect();
    let sn: Vec<String> = new.iter().map(|c| format!("{}\n", c.0)).collect();
    let ro: Vec<&str> = so.iter().map(|s| s.as_str()).collect();
    let rn: Vec<&str> = sn.iter().map(|s| s.as_str()).collect();
    let o32: Vec<u32> = old.iter().map(|c| c.0).collect();
    let n32: Vec<u32> = new.iter().map(|c| c.0).collect();
    for k in [0u64, 1, u64::MAX] {
        let mut p_direct = 0;
        let direct = subject(|| {
            let clock = arm_clock(k);
            let ops = similar::capture_diff_slices_deadline(alg, &o32, &n32, some_deadline());
            p_direct = clock.probes.get();
            ops
        })
        .map_err(|p| format!("{}: capture_diff_slices_deadline: panic: {}", name, p))?;
        for which in 0..2 {
            let mut p_b = 0;
            let built = subject(|| {
                let clock = arm_clock(k);
                let mut cfg = TextDiff::configure();
                cfg.algorithm(alg);
                if which == 0 {
                    cfg.deadline(some_deadline().unwrap());
                } else {
                    cfg.timeout(Duration::from_secs(86_400));
                }
                let ops = cfg.diff_slices(&ro, &rn).ops().to_vec();
                p_b = clock.probes.get();
                ops
            })
            .map_err(|p| format!("{}: TextDiff builder: panic: {}", name, p))?;
            runs += 1;
            if (p_b > 0) != (p_direct > 0) || built != direct {
                return Err(format!(
                    "{} ({} vs {} tokens, above the integer-mapping threshold): TextDiff builder with {} and clock expiring at probe {} made {} probes and differs={} from capture_diff_slices_deadline ({} probes): deadline not plumbed through",
                    name, n, m, if which == 0 { "deadline()" } else { "timeout()" }, k, p_b, built != direct, p_direct
                ));
            }
        }
    }
    Ok(Out {
        nontrivial: inf.probes > 0,
        transitions,
        fp: fp.0,
        runs,
        probes: inf.probes,
        worst_after: worst,
    })
}

fn scopes(tier: Tier) -> Vec<Scope> {
    match tier {
        Tier::Quick => vec![
            Scope::P { k: 3, n: 5 },
            Scope::P { k: 2, n: 7 },
            Scope::R { l: 8 },
        ],
        Tier::Thorough => vec![
            Scope::P { k: 3, n: 6 },
            Scope::P { k: 2, n: 9 },
            Scope::P { k: 4, n: 5 },
            Scope::R { l: 10 },
        ],
    }
}

pub fn run(cfg: &RunCfg) -> CheckReport {
    let mut rep = CheckReport::new(
        "fault_enumeration",
        "part 'expiry': every (algorithm, old, new) from the listed scopes x every expiry probe index k in 0..probes(never-expiring run) (plus never and no deadline) through algorithms::diff_deadline, <alg>::diff_deadline, diff_slices_deadline, capture_diff(_slices)_deadline and the TextDiff builder's deadline()/timeout(); one case = one (algorithm, input) with all its k; non-trivial: the run makes >= 1 probe. part 'families': enumerated large inputs (5 families x sizes) x every k, promptness bound 8*(N+M)+32 comparisons after expiry. Cases distinct by construction.",
    );
    rep.assume("H1: deadline_exceeded is the only place the diff path reads the clock; the virtual clock is monotone");
    rep.assume("promptness is measured on the raw algorithm (comparisons of the counting element type after the first 'exceeded' answer)");
    let space = PairSpace::new(scopes(cfg.tier));
    let ex = explore(cfg, space.nshards(), |shard, acc| {
        space.for_each(shard, |old, new| {
            for &alg in ALGS.iter() {
                match check_input(alg, old, new, true) {
                    Ok(o) => {
                        if acc.want_sample() {
                            let mut c = seq_case(alg, old, new);
                            c["expiry_points"] = json!(o.probes);
                            acc.sample(c);
                        }
                        acc.count("diff_runs_incl_every_expiry_k", o.runs);
                        acc.max("max_probes", o.probes as f64, || {
                            format!("{} {:?} {:?}", alg_name(alg), old, new)
                        });
                        acc.max("max_post_expiry_comparisons_per_item", o.worst_after, || {
                            format!("{} {:?} {:?}", alg_name(alg), old, new)
                        });
                        acc.ok(o.nontrivial, o.transitions, o.fp);
                    }
                    Err(e) => acc.violation(|| (seq_case(alg, old, new), e)),
                }
                if acc.stop() {
                    return false;
                }
            }
            true
        });
    });
    rep.part("expiry", json!({"scopes": space.describe()}), ex);
    if rep.has_violation() {
        return rep;
    }
    // value-aware virtual time: the configured deadline / timeout VALUE decides the expiry probe
    let vspace = PairSpace::new(match cfg.tier {
        Tier::Quick => vec![Scope::P { k: 3, n: 4 }, Scope::P { k: 2, n: 6 }, Scope::R { l: 7 }],
        Tier::Thorough => vec![Scope::P { k: 3, n: 5 }, Scope::P { k: 2, n: 8 }, Scope::R { l: 9 }],
    });
    let ex = explore(cfg, vspace.nshards(), |shard, acc| {
        vspace.for_each(shard, |old, new| {
            for &alg in ALGS.iter() {
                match check_virtual_time(alg, old, new) {
                    Ok((nt, runs, fp)) => {
                        if acc.want_sample() {
                            acc.sample(seq_case(alg, old, new));
                        }
                        acc.count("runs", runs);
                        acc.ok(nt, runs, fp);
                    }
                    Err(e) => acc.violation(|| {
                        let mut c = seq_case(alg, old, new);
                        c["virtual_time"] = json!(true);
                        (c, e)
                    }),
                }
                if acc.stop() {
                    return false;
                }
            }
            true
        });
    });
    rep.part("virtual-time", json!({"scopes": vspace.describe(), "clauses": "a limit between virtual probe k-1 and k expires exactly at probe k: capture_diff_deadline, builder deadline(), builder timeout(), deadline(far) then timeout(short), timeout(far) then deadline(short), one config used for two diffs"}), ex);

    let sizes: Vec<usize> = match cfg.tier {
        Tier::Quick => vec![64, 128, 256],
        Tier::Thorough => vec![64, 128, 256, 512, 1024],
    };
    let mut fams = vec![];
    for &n in &sizes {
        for f in families32(n, cfg.seed) {
            for &alg in ALGS.iter() {
                // LCS at 512x512 builds a 262k-entry BTreeMap per run and per k: skip
                if alg == Algorithm::Lcs && n > 128 {
                    continue;
                }
                fams.push((alg, f.clone()));
            }
        }
    }
    let ex = explore(cfg, fams.len(), |shard, acc| {
        let (alg, (name, old, new)) = &fams[shard];
        match check_family(*alg, name, old, new) {
            Ok(o) => {
                acc.sample(json!({"algorithm": alg_name(*alg), "family": name, "expiry_points": o.probes}));
                acc.count("diff_runs_incl_every_expiry_k", o.runs);
                acc.max("max_post_expiry_comparisons_per_item", o.worst_after, || {
                    format!("{} {}", alg_name(*alg), name)
                });
                acc.ok(o.nontrivial, o.transitions, o.fp);
            }
            Err(e) => acc.violation(|| {
                (
                    json!({"algorithm": alg_name(*alg), "family": name, "seed": cfg.seed, "size": old.len()}),
                    e,
                )
            }),
        }
    });
    rep.part("families", json!({"sizes": sizes, "families": ["unrelated", "reversed", "lcg4-independent", "anchors-with-unrelated-gaps", "near-identical"]}), ex);
    rep
}

pub fn replay(case: &Value) -> Result<String, String> {
    let alg = parse_alg(case)?;
    if let Some(name) = case.get("family").and_then(|x| x.as_str()) {
        let seed = parse_u64(case, "seed")?;
        let size = name
            .rsplit('-')
            .next()
            .and_then(|s| s.parse::<usize>().ok())
            .ok_or("bad family name")?;
        for (fname, old, new) in families32(size, seed) {
            if fname == name {
                return check_family(alg, &fname, &old, &new)
                    .map(|o| format!("holds; {} runs, worst {:.2}", o.runs, o.worst_after));
            }
        }
        return Err(format!("unknown family {}", name));
    }
    let old = parse_seq(case, "old")?;
    let new = parse_seq(case, "new")?;
    if case.get("virtual_time").is_some() {
        return check_virtual_time(alg, &old, &new).map(|o| format!("holds; {} runs", o.1));
    }
    check_input(alg, &old, &new, true).map(|o| format!("holds; {} runs, fingerprint {:x}", o.runs, o.fp))
}
