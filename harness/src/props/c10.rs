//! C10 — Compact and Replace preserve meaning and cost of any valid script.
//!
//! Explicit-state generation: the model is the edit lattice of a pair (states (o,n), edges
//! equal(len) where the items match, delete(len), insert(len)); every path from (0,0) to
//! (N,M) is a valid script — any order, any segmentation.  Every path is replayed against the
//! real adapters, so there is no abstraction gap to argue about.

use super::common::*;
use crate::engine::*;
use crate::oracles::*;
use crate::spaces::*;
use serde_json::{json, Value};
use similar::algorithms::{Capture, Compact, DiffHook, Replace};
use similar::DiffOp;

pub const STACKS: [&str; 8] = [
    "Replace<Capture>",
    "Compact<Capture>",
    "Compact<Replace<Capture>>",
    "Replace<&mut Capture>",
    "Compact<&mut Capture>",
    "Compact<&mut Replace<Capture>>",
    "Compact<Replace<&mut Capture>>",
    "Replace<&mut Compact<Capture>>",
];
/// adapters whose output must carry exact indices / be in normal form
const EXACT: [bool; 8] = [true, false, false, true, false, false, false, false];
const NORMAL: [bool; 8] = [false, false, true, false, false, true, true, false];

fn feed<D: DiffHook>(d: &mut D, script: &[DiffOp]) -> Result<(), D::Error> {
    for op in script {
        op.apply_to_hook(d)?;
    }
    d.finish()
}

fn replay_stack<T: PartialEq>(stack: usize, script: &[DiffOp], old: &[T], new: &[T]) -> Result<Vec<DiffOp>, String> {
    subject(|| match stack {
        0 => {
            let mut d = Replace::new(Capture::new());
            feed(&mut d, script).unwrap();
            d.into_inner().into_ops()
        }
        1 => {
            let mut d = Compact::new(Capture::new(), old, new);
            feed(&mut d, script).unwrap();
            d.into_inner().into_ops()
        }
        2 => {
            let mut d = Compact::new(Replace::new(Capture::new()), old, new);
            feed(&mut d, script).unwrap();
            d.into_inner().into_inner().into_ops()
        }
        // the same adapters composed by reference: the sink (or the inner adapter) stays with
        // the caller, who reads it once the outermost finish has returned
        3 => {
            let mut sink = Capture::new();
            feed(&mut Replace::new(&mut sink), script).unwrap();
            sink.into_ops()
        }
        4 => {
            let mut sink = Capture::new();
            feed(&mut Compact::new(&mut sink, old, new), script).unwrap();
            sink.into_ops()
        }
        5 => {
            let mut inner = Replace::new(Capture::new());
            feed(&mut Compact::new(&mut inner, old, new), script).unwrap();
            inner.into_inner().into_ops()
        }
        6 => {
            let mut sink = Capture::new();
            feed(&mut Compact::new(Replace::new(&mut sink), old, new), script).unwrap();
            sink.into_ops()
        }
        _ => {
            let mut inner = Compact::new(Capture::new(), old, new);
            feed(&mut Replace::new(&mut inner), script).unwrap();
            inner.into_inner().into_ops()
        }
    })
    .map_err(|p| format!("{}: panic: {}", STACKS[stack], p))
}

/// A `Replace` adapter that went through an ABORTED script before (its sink failed at call j and
/// the feeder stopped there, as the algorithms do), whose sink is then put in order again, must
/// turn the next complete valid script into a valid script like a fresh one does.  (`Replace`
/// returns to its initial state on every flush; `Compact` is bound to one pair of sequences and
/// keeps its op list, no reuse is implied for it.)
pub fn check_reuse_after_abort<T: PartialEq>(script: &[DiffOp], old: &[T], new: &[T]) -> Result<u64, String> {
    use crate::instr::{Call, SharedRec};
    let preludes: [Vec<DiffOp>; 3] = [
        vec![DiffOp::Equal { old_index: 0, new_index: 0, len: 2 }],
        vec![DiffOp::Delete { old_index: 0, old_len: 2, new_index: 0 }, DiffOp::Insert { old_index: 2, new_index: 0, new_len: 1 }],
        vec![
            DiffOp::Equal { old_index: 0, new_index: 0, len: 1 },
            DiffOp::Delete { old_index: 1, old_len: 1, new_index: 1 },
            DiffOp::Insert { old_index: 2, new_index: 1, new_len: 2 },
            DiffOp::Equal { old_index: 2, new_index: 3, len: 1 },
        ],
    ];
    let (mut del, mut ins) = (0, 0);
    for op in script {
        match *op {
            DiffOp::Delete { old_len, .. } => del += old_len,
            DiffOp::Insert { new_len, .. } => ins += new_len,
            _ => {}
        }
    }
    let mut runs = 0;
    for (pi, prelude) in preludes.iter().enumerate() {
        for j in 0..4usize {
            let out = subject(|| {
                let st = SharedRec::new();
                let mut d = Replace::new(st.clone());
                st.reset(Some(j));
                let mut aborted = false;
                for op in prelude {
                    if op.apply_to_hook(&mut d).is_err() {
                        aborted = true;
                        break;
                    }
                }
                if !aborted {
                    let _ = d.finish();
                }
                st.reset(None);
                feed(&mut d, script).unwrap();
                st.calls()
            })
            .map_err(|p| format!("Replace reused after an aborted script: panic: {}", p))?;
            let mut ops = vec![];
            for c in &out {
                match *c {
                    Call::Eq(o, n, l) => ops.push(DiffOp::Equal { old_index: o, new_index: n, len: l }),
                    Call::Del(o, l, n) => ops.push(DiffOp::Delete { old_index: o, old_len: l, new_index: n }),
                    Call::Ins(o, n, l) => ops.push(DiffOp::Insert { old_index: o, new_index: n, new_len: l }),
                    Call::Rep(o, ol, n, nl) => ops.push(DiffOp::Replace { old_index: o, old_len: ol, new_index: n, new_len: nl }),
                    Call::Fin => {}
                }
            }
            let what = || format!("Replace<sink> that went through script #{} before, its sink failing at call {} (script aborted there, or completed and finished when it makes fewer calls; sink reset afterwards)", pi, j);
            let st = validate_ops(&ops, old, 0..old.len(), new, 0..new.len(), true)
                .map_err(|e| format!("{}: output is not a valid script: {} [output: {:?}]", what(), e, ops))?;
            if st.deleted != del || st.inserted != ins {
                return Err(format!(
                    "{}: input script deletes {} and inserts {} items, output deletes {} and inserts {} [output: {:?}]",
                    what(), del, ins, st.deleted, st.inserted, ops
                ));
            }
            runs += 1;
        }
    }
    Ok(runs)
}

pub fn check_script<T: PartialEq>(script: &[DiffOp], old: &[T], new: &[T]) -> Result<u64, String> {
    check_script_ranges(script, old, 0..old.len(), new, 0..new.len())
}

pub fn check_script_ranges<T: PartialEq>(
    script: &[DiffOp],
    old: &[T],
    or: std::ops::Range<usize>,
    new: &[T],
    nr: std::ops::Range<usize>,
) -> Result<u64, String> {
    let mut del = 0;
    let mut ins = 0;
    for op in script {
        match *op {
            DiffOp::Delete { old_len, .. } => del += old_len,
            DiffOp::Insert { new_len, .. } => ins += new_len,
            _ => {}
        }
    }
    let mut fp = Fp::new();
    for stack in 0..STACKS.len() {
        let out = replay_stack(stack, script, old, new)?;
        let exact = EXACT[stack];
        let st = validate_ops(&out, old, or.clone(), new, nr.clone(), exact).map_err(|e| {
            format!("{}: output is not a valid script: {} [output: {:?}]", STACKS[stack], e, out)
        })?;
        if st.deleted != del || st.inserted != ins {
            return Err(format!(
                "{}: input script deletes {} and inserts {} items, output deletes {} and inserts {} [output: {:?}]",
                STACKS[stack], del, ins, st.deleted, st.inserted, out
            ));
        }
        if NORMAL[stack] {
            normal_form(&out, old, new)
                .map_err(|e| format!("{}: {} [output: {:?}]", STACKS[stack], e, out))?;
        }
        fp.add(ops_fp(&out));
    }
    Ok(fp.0)
}

struct Walk<'a> {
    old: &'a [u8],
    new: &'a [u8],
    script: Vec<DiffOp>,
    traces: u64,
    nontriv: u64,
    edges: u64,
    fp: Fp,
    err: Option<(Vec<DiffOp>, String)>,
}

impl<'a> Walk<'a> {
    fn dfs(&mut self, o: usize, n: usize) {
        if self.err.is_some() {
            return;
        }
        let (nn, mm) = (self.old.len(), self.new.len());
        if o == nn && n == mm {
            self.traces += 1;
            self.nontriv += (self.script.len() >= 3) as u64;
            match check_script(&self.script, self.old, self.new) {
                Ok(f) => self.fp.add(f),
                Err(e) => self.err = Some((self.script.clone(), e)),
            }
            if self.err.is_none() && self.old.len() + self.new.len() <= 6 {
                if let Err(e) = check_reuse_after_abort(&self.script, self.old, self.new) {
                    self.err = Some((self.script.clone(), e));
                }
            }
            // the same script for sub-ranges: indices shifted by (3,5) inside padded arrays
            if self.err.is_none() && self.old.len() + self.new.len() <= 8 {
                let (po, pn) = (3usize, 5usize);
                let fo = crate::spaces::embed(self.old, po, 2, self.new);
                let fnw = crate::spaces::embed(self.new, pn, 2, self.old);
                let shifted: Vec<DiffOp> = self
                    .script
                    .iter()
                    .map(|op| match *op {
                        DiffOp::Equal { old_index, new_index, len } => DiffOp::Equal { old_index: old_index + po, new_index: new_index + pn, len },
                        DiffOp::Delete { old_index, old_len, new_index } => DiffOp::Delete { old_index: old_index + po, old_len, new_index: new_index + pn },
                        DiffOp::Insert { old_index, new_index, new_len } => DiffOp::Insert { old_index: old_index + po, new_index: new_index + pn, new_len },
                        DiffOp::Replace { old_index, old_len, new_index, new_len } => DiffOp::Replace { old_index: old_index + po, old_len, new_index: new_index + pn, new_len },
                    })
                    .collect();
                if let Err(e) = check_script_ranges(&shifted, &fo, po..po + self.old.len(), &fnw, pn..pn + self.new.len()) {
                    self.err = Some((self.script.clone(), format!("same script shifted to sub-ranges old {:?} new {:?} of old={:?} new={:?}: {}", po..po + self.old.len(), pn..pn + self.new.len(), fo, fnw, e)));
                }
            }
            return;
        }
        // equal edges
        let mut l = 0;
        while o + l < nn && n + l < mm && self.old[o + l] == self.new[n + l] {
            l += 1;
            self.edges += 1;
            self.script.push(DiffOp::Equal {
                old_index: o,
                new_index: n,
                len: l,
            });
            self.dfs(o + l, n + l);
            self.script.pop();
        }
        for l in 1..=(nn - o) {
            self.edges += 1;
            self.script.push(DiffOp::Delete {
                old_index: o,
                old_len: l,
                new_index: n,
            });
            self.dfs(o + l, n);
            self.script.pop();
        }
        for l in 1..=(mm - n) {
            self.edges += 1;
            self.script.push(DiffOp::Insert {
                old_index: o,
                new_index: n,
                new_len: l,
            });
            self.dfs(o, n + l);
            self.script.pop();
        }
    }
}

fn script_json(s: &[DiffOp]) -> Value {
    json!(s
        .iter()
        .map(|op| match *op {
            DiffOp::Equal { old_index, new_index, len } => json!(["equal", old_index, new_index, len]),
            DiffOp::Delete { old_index, old_len, new_index } => json!(["delete", old_index, old_len, new_index]),
            DiffOp::Insert { old_index, new_index, new_len } => json!(["insert", old_index, new_index, new_len]),
            DiffOp::Replace { old_index, old_len, new_index, new_len } => json!(["replace", old_index, old_len, new_index, new_len]),
        })
        .collect::<Vec<_>>())
}

fn script_from_json(v: &Value) -> Result<Vec<DiffOp>, String> {
    let arr = v.as_array().ok_or("script is not an array")?;
    let mut out = vec![];
    for e in arr {
        let a = e.as_array().ok_or("bad op")?;
        let g = |i: usize| a.get(i).and_then(|x| x.as_u64()).unwrap_or(0) as usize;
        out.push(match a.first().and_then(|x| x.as_str()) {
            Some("equal") => DiffOp::Equal { old_index: g(1), new_index: g(2), len: g(3) },
            Some("delete") => DiffOp::Delete { old_index: g(1), old_len: g(2), new_index: g(3) },
            Some("insert") => DiffOp::Insert { old_index: g(1), new_index: g(2), new_len: g(3) },
            _ => return Err("bad op kind".into()),
        });
    }
    Ok(out)
}

// ---- large scripts ------------------------------------------------------------------------

fn calls_to_ops(calls: &[crate::instr::Call]) -> Vec<DiffOp> {
    use crate::instr::Call;
    let mut v = vec![];
    for c in calls {
        match *c {
            Call::Eq(o, n, l) => v.push(DiffOp::Equal { old_index: o, new_index: n, len: l }),
            Call::Del(o, l, n) => v.push(DiffOp::Delete { old_index: o, old_len: l, new_index: n }),
            Call::Ins(o, n, l) => v.push(DiffOp::Insert { old_index: o, new_index: n, new_len: l }),
            Call::Rep(o, ol, n, nl) => {
                v.push(DiffOp::Delete { old_index: o, old_len: ol, new_index: n });
                v.push(DiffOp::Insert { old_index: o + ol, new_index: n, new_len: nl });
            }
            Call::Fin => {}
        }
    }
    v
}

/// valid scripts for one large input: what each algorithm emits raw, plus hand-built ones
fn scripts_for(inp: &super::large::LargeInput) -> Result<Vec<(String, Vec<DiffOp>)>, String> {
    let (old, new) = (&inp.old[..], &inp.new[..]);
    let (n, m) = (old.len(), new.len());
    let mut out = vec![];
    for &alg in ALGS.iter() {
        if alg == similar::Algorithm::Lcs && !super::large::lcs_affordable(inp) {
            continue;
        }
        let calls = raw_stream(alg, 0, old, 0..n, new, 0..m)?;
        out.push((format!("raw {} stream", alg_name(alg)), calls_to_ops(&calls)));
    }
    let p = old.iter().zip(new.iter()).take_while(|(a, b)| a == b).count();
    let sfx = old[p..].iter().rev().zip(new[p..].iter().rev()).take_while(|(a, b)| a == b).count();
    let (dm, im) = (n - p - sfx, m - p - sfx);
    for variant in 0..3 {
        let mut v = vec![];
        if p > 0 {
            v.push(DiffOp::Equal { old_index: 0, new_index: 0, len: p });
        }
        match variant {
            0 => {
                if dm > 0 {
                    v.push(DiffOp::Delete { old_index: p, old_len: dm, new_index: p });
                }
                if im > 0 {
                    v.push(DiffOp::Insert { old_index: p + dm, new_index: p, new_len: im });
                }
            }
            1 => {
                if im > 0 {
                    v.push(DiffOp::Insert { old_index: p, new_index: p, new_len: im });
                }
                if dm > 0 {
                    v.push(DiffOp::Delete { old_index: p, old_len: dm, new_index: p + im });
                }
            }
            _ => {
                // unit ops, interleaved
                let (mut o, mut nn) = (p, p);
                while o < p + dm || nn < p + im {
                    if o < p + dm {
                        v.push(DiffOp::Delete { old_index: o, old_len: 1, new_index: nn });
                        o += 1;
                    }
                    if nn < p + im {
                        v.push(DiffOp::Insert { old_index: o, new_index: nn, new_len: 1 });
                        nn += 1;
                    }
                }
            }
        }
        if sfx > 0 {
            v.push(DiffOp::Equal { old_index: n - sfx, new_index: m - sfx, len: sfx });
        }
        out.push((
            ["prefix, delete, insert, suffix", "prefix, insert, delete, suffix", "prefix, interleaved unit deletes/inserts, suffix"][variant].to_string(),
            v,
        ));
    }
    Ok(out)
}

/// periodic inputs: a block of r periods inserted (or deleted) at every period boundary of a
/// long periodic run, as one op — the places from which Compact has to slide far
fn periodic_cases() -> Vec<(String, Vec<u32>, Vec<u32>, Vec<DiffOp>)> {
    let mut out = vec![];
    for &period in &[1usize, 2, 3] {
        for &reps in &[40usize, 101, 150] {
            for &r in &[1usize, 2, 3, 7] {
                let short: Vec<u32> = (0..period * reps).map(|i| (i % period) as u32).collect();
                let long: Vec<u32> = (0..period * (reps + r)).map(|i| (i % period) as u32).collect();
                let k = period * r;
                for &at in &[0usize, reps / 2, reps] {
                    let j = at * period;
                    let mut ins = vec![];
                    if j > 0 {
                        ins.push(DiffOp::Equal { old_index: 0, new_index: 0, len: j });
                    }
                    ins.push(DiffOp::Insert { old_index: j, new_index: j, new_len: k });
                    if j < short.len() {
                        ins.push(DiffOp::Equal { old_index: j, new_index: j + k, len: short.len() - j });
                    }
                    out.push((format!("period {} x {} reps, {} periods inserted at boundary {}", period, reps, r, at), short.clone(), long.clone(), ins));
                    let mut del = vec![];
                    if j > 0 {
                        del.push(DiffOp::Equal { old_index: 0, new_index: 0, len: j });
                    }
                    del.push(DiffOp::Delete { old_index: j, old_len: k, new_index: j });
                    if j < short.len() {
                        del.push(DiffOp::Equal { old_index: j + k, new_index: j, len: short.len() - j });
                    }
                    out.push((format!("period {} x {} reps, {} periods deleted at boundary {}", period, reps, r, at), long.clone(), short.clone(), del));
                }
            }
        }
    }
    out
}

/// very long scripts of unit ops (more ops than any buffer / window size one might pick)
fn huge_unit_scripts(tier: Tier) -> Vec<(String, Vec<u32>, Vec<u32>, Vec<DiffOp>)> {
    let mut out = vec![];
    let sizes: Vec<usize> = match tier {
        Tier::Quick => vec![9_000, 20_000],
        Tier::Thorough => vec![9_000, 20_000, 70_000],
    };
    for n in sizes {
        let items: Vec<u32> = (0..n as u32).map(|i| i % 5).collect();
        // only inserts
        let s: Vec<DiffOp> = (0..n).map(|j| DiffOp::Insert { old_index: 0, new_index: j, new_len: 1 }).collect();
        out.push((format!("{} unit inserts into an empty old", n), vec![], items.clone(), s));
        // only deletes
        let s: Vec<DiffOp> = (0..n).map(|i| DiffOp::Delete { old_index: i, old_len: 1, new_index: 0 }).collect();
        out.push((format!("{} unit deletes down to an empty new", n), items.clone(), vec![], s));
        // one equal item up front, then interleaved unit deletes / inserts of unrelated items
        let half = n / 2;
        let old: Vec<u32> = std::iter::once(1).chain((0..half as u32).map(|i| 100 + i % 7)).collect();
        let new: Vec<u32> = std::iter::once(1).chain((0..half as u32).map(|i| 200 + i % 7)).collect();
        let mut s = vec![DiffOp::Equal { old_index: 0, new_index: 0, len: 1 }];
        for i in 0..half {
            s.push(DiffOp::Delete { old_index: 1 + i, old_len: 1, new_index: 1 + i });
            s.push(DiffOp::Insert { old_index: 2 + i, new_index: 1 + i, new_len: 1 });
        }
        out.push((format!("{} interleaved unit deletes and inserts", 2 * half), old, new, s));
    }
    out
}

fn scopes(tier: Tier) -> Vec<Scope> {
    match tier {
        Tier::Quick => vec![Scope::P { k: 2, n: 5 }, Scope::P { k: 3, n: 4 }, Scope::R { l: 8 }],
        Tier::Thorough => vec![Scope::P { k: 2, n: 6 }, Scope::P { k: 3, n: 5 }, Scope::R { l: 10 }],
    }
}

// ---- an equality that is not an equivalence -----------------------------------------------------

/// Item type whose PartialEq is a legal but many-to-many relation: the value `WILD` equals
/// everything (a pattern line matching any line); not transitive.
#[derive(Clone, Copy, Debug)]
pub struct Wild(pub u8);
pub const WILD: u8 = 2;
impl PartialEq for Wild {
    fn eq(&self, o: &Wild) -> bool {
        self.0 == o.0 || self.0 == WILD || o.0 == WILD
    }
}

/// every valid script of (old, new) under the relation of `Wild`, each through all 8 compositions:
/// output valid (Equal pairs related items) with the same cost
fn wild_scripts(old: &[Wild], new: &[Wild], o: usize, n: usize, script: &mut Vec<DiffOp>, count: &mut u64) -> Result<(), String> {
    let (nn, mm) = (old.len(), new.len());
    if o == nn && n == mm {
        *count += 1;
        let (mut del, mut ins) = (0, 0);
        for op in script.iter() {
            match *op {
                DiffOp::Delete { old_len, .. } => del += old_len,
                DiffOp::Insert { new_len, .. } => ins += new_len,
                _ => {}
            }
        }
        for stack in 0..STACKS.len() {
            let out = replay_stack(stack, script, old, new)?;
            let st = validate_ops(&out, old, 0..nn, new, 0..mm, EXACT[stack]).map_err(|e| {
                format!("{} over items whose equality is a many-to-many relation (value 2 equals everything): output is not a valid script: {} [output: {:?}]", STACKS[stack], e, out)
            })?;
            if st.deleted != del || st.inserted != ins {
                return Err(format!(
                    "{} over items whose equality is a many-to-many relation: input script deletes {} and inserts {} items, output deletes {} and inserts {} [output: {:?}]",
                    STACKS[stack], del, ins, st.deleted, st.inserted, out
                ));
            }
        }
        return Ok(());
    }
    let mut l = 0;
    while o + l < nn && n + l < mm && old[o + l] == new[n + l] {
        l += 1;
        script.push(DiffOp::Equal { old_index: o, new_index: n, len: l });
        wild_scripts(old, new, o + l, n + l, script, count)?;
        script.pop();
    }
    for l in 1..=(nn - o) {
        script.push(DiffOp::Delete { old_index: o, old_len: l, new_index: n });
        wild_scripts(old, new, o + l, n, script, count)?;
        script.pop();
    }
    for l in 1..=(mm - n) {
        script.push(DiffOp::Insert { old_index: o, new_index: n, new_len: l });
        wild_scripts(old, new, o, n + l, script, count)?;
        script.pop();
    }
    Ok(())
}

pub fn check_wild(old8: &[u8], new8: &[u8]) -> Result<u64, String> {
    let old: Vec<Wild> = old8.iter().map(|&x| Wild(x)).collect();
    let new: Vec<Wild> = new8.iter().map(|&x| Wild(x)).collect();
    let mut count = 0;
    wild_scripts(&old, &new, 0, 0, &mut vec![], &mut count).map_err(|e| format!("{} [script space of old={:?} new={:?} with 2 as wildcard]", e, old8, new8))?;
    Ok(count)
}

pub fn run(cfg: &RunCfg) -> CheckReport {
    let mut rep = CheckReport::new(
        "model_checking",
        "model: for every pair (old,new) of the listed scopes the edit lattice with states (o,n) and edges equal(len>=1 over matching items) / delete(len>=1) / insert(len>=1), indices exact; every path (0,0)->(N,M) is one trace = one valid edit script (no restriction on order or on consecutive same-kind calls). Every trace is replayed through Replace<Capture>, Compact<Capture>, Compact<Replace<Capture>> via DiffOp::apply_to_hook + finish. evaluations = traces; non-trivial: the script has >= 3 calls; traces are distinct by construction (distinct paths of distinct pairs).",
    );
    rep.assume("oracles: C02 cursor automaton, cost equality, C09 normal form for both adapters, exact indices for Replace alone; carried indices after Compact are not examined (KF1, C11)");
    rep.assume("adapter reuse: a Replace value is taken to be reusable after a finished or an aborted script (on the pinned tree it returns to its initial state on every flush); this leans on observed, not stated, behaviour (DESIGN.md section 13). Compact is never reused: it is built for one pair of sequences and keeps its op list");
    let space = PairSpace::new(scopes(cfg.tier));
    let ex = explore(cfg, space.nshards(), |shard, acc| {
        space.for_each(shard, |old, new| {
            let mut w = Walk {
                old,
                new,
                script: vec![],
                traces: 0,
                nontriv: 0,
                edges: 0,
                fp: Fp::new(),
                err: None,
            };
            w.dfs(0, 0);
            acc.count("lattice_states", ((old.len() + 1) * (new.len() + 1)) as u64);
            acc.count("path_tree_edges", w.edges);
            acc.count("pairs", 1);
            if let Some((script, e)) = w.err {
                acc.violation(|| {
                    (
                        json!({"old": old, "new": new, "script": script_json(&script)}),
                        e,
                    )
                });
                return false;
            }
            // account all traces of this pair as cases
            if acc.want_sample() {
                acc.sample(json!({"old": old, "new": new, "traces": w.traces}));
            }
            let nontriv = w.nontriv;
            // bulk accounting: traces-1 plain + 1 through ok() for the fingerprint
            acc.evals += w.traces - 1;
            acc.nontrivial += nontriv.saturating_sub(1);
            acc.ok(nontriv > 0, w.edges, w.fp.0);
            if nontriv == 0 {
                // ok() counted nothing non-trivial; nothing to correct
            }
            true
        });
    });
    let states = ex.acc.counters.get("lattice_states").copied().unwrap_or(0);
    let edges = ex.acc.counters.get("path_tree_edges").copied().unwrap_or(0);
    let traces = ex.acc.evals;
    rep.extra.insert("states".into(), json!(states));
    rep.extra.insert("transitions".into(), json!(edges));
    rep.extra
        .insert("traces_validated_against_impl".into(), json!(traces * 3));
    rep.extra.insert(
        "model_binding".into(),
        json!("every model trace is executed on the implementation (3 adapter stacks each); the model only generates inputs, the oracle inspects the implementation's output"),
    );
    rep.part("scripts", json!({"scopes": space.describe(), "stacks": STACKS, "history": "scripts of pairs with N+M <= 6 are also fed to a Replace<sink> that went through one of 3 scripts aborted by its sink at call j (j = 0..3) before"}), ex);
    if !rep.has_violation() {
        let wspace = PairSpace::new(vec![Scope::P { k: 3, n: cfg.tier.pick(4, 5) }]);
        let ex = explore(cfg, wspace.nshards(), |shard, acc| {
            wspace.for_each(shard, |old, new| {
                match check_wild(old, new) {
                    Ok(n) => {
                        acc.count("scripts_under_the_wildcard_relation", n);
                        acc.ok(old.contains(&WILD) || new.contains(&WILD), n, n ^ ((old.len() * 16 + new.len()) as u64));
                    }
                    Err(e) => acc.violation(|| (json!({"wild": true, "old": old, "new": new}), e)),
                }
                !acc.stop()
            });
        });
        rep.part("many-to-many-equality", json!({"scopes": wspace.describe(), "relation": "item value 2 equals every item (not transitive)", "oracle": "valid script (Equal pairs related items) of equal cost through all 8 compositions; normal form not required"}), ex);
    }
    if rep.has_violation() {
        return rep;
    }
    // enumerated large scripts (not exhaustive): per large input the raw stream of each algorithm
    // and three hand-built scripts; plus periodic runs with a block inserted / deleted at a
    // period boundary
    let inputs = super::large::all(cfg.tier, cfg.seed);
    let periodic = periodic_cases();
    let total = inputs.len() + periodic.len();
    let ex = explore(cfg, total, |shard, acc| {
        if shard < inputs.len() {
            let inp = &inputs[shard];
            match scripts_for(inp) {
                Err(e) => acc.violation(|| (json!({"large": inp.name, "seed": cfg.seed}), e)),
                Ok(list) => {
                    for (what, script) in list {
                        match check_script(&script, &inp.old, &inp.new) {
                            Ok(fp) => {
                                if shard % 97 == 0 {
                                    acc.sample(json!({"large": inp.name, "script": what, "calls": script.len()}));
                                }
                                acc.ok(script.len() >= 3, script.len() as u64, fp);
                            }
                            Err(e) => acc.violation(|| {
                                (
                                    json!({"large": inp.name, "seed": cfg.seed, "script_kind": what}),
                                    format!("{} ({}): {}", inp.name, what, e),
                                )
                            }),
                        }
                        if acc.stop() {
                            return;
                        }
                    }
                }
            }
        } else {
            let (name, old, new, script) = &periodic[shard - inputs.len()];
            match check_script(script, old, new) {
                Ok(fp) => {
                    if shard % 31 == 0 {
                        acc.sample(json!({"periodic": name}));
                    }
                    acc.ok(true, script.len() as u64, fp);
                }
                Err(e) => acc.violation(|| (json!({"periodic": name}), format!("{}: {}", name, e))),
            }
        }
    });
    if ex.acc.violation.is_none() {
        let huge = huge_unit_scripts(cfg.tier);
        let ex2 = explore(cfg, huge.len(), |shard, acc| {
            let (name, old, new, script) = &huge[shard];
            match check_script(script, old, new) {
                Ok(fp) => {
                    acc.sample(json!({"huge_script": name}));
                    acc.ok(true, script.len() as u64, fp);
                }
                Err(e) => acc.violation(|| (json!({"huge_script": name}), format!("{}: {}", name, e))),
            }
        });
        rep.part("huge-unit-scripts", json!({"scripts": huge.iter().map(|h| h.0.clone()).collect::<Vec<_>>()}), ex2);
    }
    rep.part("large-scripts", json!({"large_inputs": super::large::describe(cfg.tier), "scripts_per_input": "raw Myers / Patience / LCS(<=300) streams + 3 hand-built scripts", "periodic": periodic.len(), "note": "enumerated family, not exhaustive"}), ex);
    rep
}

pub fn replay(case: &Value) -> Result<String, String> {
    if let Some(name) = case.get("huge_script").and_then(|x| x.as_str()) {
        for (n, old, new, script) in huge_unit_scripts(Tier::Thorough) {
            if n == name {
                return check_script(&script, &old, &new).map(|f| format!("holds; fingerprint {:x}", f));
            }
        }
        return Err("unknown huge script".into());
    }
    if let Some(name) = case.get("periodic").and_then(|x| x.as_str()) {
        for (n, old, new, script) in periodic_cases() {
            if n == name {
                return check_script(&script, &old, &new).map(|f| format!("holds; fingerprint {:x}", f));
            }
        }
        return Err("unknown periodic case".into());
    }
    if let Some(name) = case.get("large").and_then(|x| x.as_str()) {
        let seed = case.get("seed").and_then(|x| x.as_u64()).unwrap_or(0);
        let inp = super::large::find(name, seed).ok_or("unknown large input")?;
        let want = case.get("script_kind").and_then(|x| x.as_str());
        for (what, script) in scripts_for(&inp)? {
            if want.map_or(true, |w| w == what) {
                check_script(&script, &inp.old, &inp.new).map_err(|e| format!("{} ({}): {}", inp.name, what, e))?;
            }
        }
        return Ok("holds".into());
    }
    let old = parse_seq(case, "old")?;
    let new = parse_seq(case, "new")?;
    if case.get("wild").is_some() {
        return check_wild(&old, &new).map(|n| format!("holds; {} scripts", n));
    }
    let script = script_from_json(case.get("script").ok_or("no script")?)?;
    if old.len() + new.len() <= 6 {
        check_reuse_after_abort(&script, &old, &new)?;
    }
    check_script(&script, &old, &new).map(|f| format!("holds; fingerprint {:x}", f))
}
