//! C06 — tokenizers are lossless partitions with the documented token shape.

use super::common::*;
use crate::engine::*;
use serde_json::{json, Value};
use similar::DiffableStr;

pub const CHARS: [&str; 14] = [
    "a", " ", "\n", "\r", "\t", "\0", "\u{e9}", "\u{a0}", "\u{2028}", "\u{3000}", "\u{85}",
    "\u{301}", "\u{200d}", "\u{1f1e6}",
];

pub const BYTES: [u8; 15] = [
    b'a', b' ', b'\n', b'\r', 0xC3, 0xA9, 0xC2, 0x85, 0xA0, 0xE2, 0x82, 0xAC, 0xF0, 0x9F, 0xFF,
];

/// number of words of length <= max_len over an alphabet of size k
pub fn count_words(k: usize, max_len: usize) -> u64 {
    let mut t = 0u64;
    let mut p = 1u64;
    for _ in 0..=max_len {
        t += p;
        p *= k as u64;
    }
    t
}

/// idx-th word (shortest first, then lexicographic) as letter indices
pub fn nth_word(k: usize, mut idx: u64, out: &mut Vec<usize>) {
    out.clear();
    let mut len = 0;
    let mut p = 1u64;
    while idx >= p {
        idx -= p;
        p *= k as u64;
        len += 1;
    }
    for _ in 0..len {
        out.push((idx % k as u64) as usize);
        idx /= k as u64;
    }
    out.reverse();
}

// ---- reference tokenizers (byte level; CR/LF/space classes decided per decoded char) -----

#[derive(Clone, Copy, PartialEq, Eq, Debug)]
struct Ch {
    start: usize,
    end: usize,
    ws: bool,
    nl: bool,
    valid: bool,
}

/// Reference decoding: valid scalars one by one; every maximal invalid subpart (as delimited
/// by the standard library's lossy decoder) is one pseudo-character that is neither
/// whitespace nor a newline.
fn ref_chars(b: &[u8]) -> Vec<Ch> {
    let mut out = vec![];
    let mut pos = 0;
    for chunk in b.utf8_chunks() {
        for c in chunk.valid().chars() {
            let l = c.len_utf8();
            out.push(Ch {
                start: pos,
                end: pos + l,
                ws: c.is_whitespace(),
                nl: c == '\r' || c == '\n',
                valid: true,
            });
            pos += l;
        }
        let inv = chunk.invalid();
        if !inv.is_empty() {
            out.push(Ch {
                start: pos,
                end: pos + inv.len(),
                ws: false,
                nl: false,
                valid: false,
            });
            pos += inv.len();
        }
    }
    out
}

fn ref_lines(b: &[u8]) -> Vec<&[u8]> {
    let mut out = vec![];
    let mut last = 0;
    let mut i = 0;
    while i < b.len() {
        if b[i] == b'\n' {
            out.push(&b[last..=i]);
            last = i + 1;
        } else if b[i] == b'\r' {
            if i + 1 < b.len() && b[i + 1] == b'\n' {
                i += 1;
            }
            out.push(&b[last..=i]);
            last = i + 1;
        }
        i += 1;
    }
    if last < b.len() {
        out.push(&b[last..]);
    }
    out
}

fn ref_runs(b: &[u8], class: impl Fn(&Ch) -> bool) -> Vec<&[u8]> {
    let chars = ref_chars(b);
    let mut out = vec![];
    let mut i = 0;
    while i < chars.len() {
        let c = class(&chars[i]);
        let start = chars[i].start;
        let mut j = i;
        while j + 1 < chars.len() && class(&chars[j + 1]) == c {
            j += 1;
        }
        out.push(&b[start..chars[j].end]);
        i = j + 1;
    }
    out
}

fn show(tokens: &[&[u8]]) -> String {
    let v: Vec<String> = tokens
        .iter()
        .map(|t| format!("{:?}", String::from_utf8_lossy(t)))
        .collect();
    format!("[{}]", v.join(", "))
}

fn partition(name: &str, input: &[u8], tokens: &[&[u8]]) -> Result<(), String> {
    let mut pos = 0;
    for t in tokens {
        if t.is_empty() {
            return Err(format!("{}: empty token in {}", name, show(tokens)));
        }
        if pos + t.len() > input.len() || &input[pos..pos + t.len()] != *t {
            return Err(format!(
                "{}: tokens {} do not concatenate to the input (mismatch at byte {})",
                name,
                show(tokens),
                pos
            ));
        }
        pos += t.len();
    }
    if pos != input.len() {
        return Err(format!(
            "{}: tokens {} cover {} of {} input bytes",
            name,
            show(tokens),
            pos,
            input.len()
        ));
    }
    Ok(())
}

fn same(name: &str, got: &[&[u8]], want: &[&[u8]]) -> Result<(), String> {
    if got != want {
        return Err(format!("{}: got {} expected {}", name, show(got), show(want)));
    }
    Ok(())
}

pub struct Toks<'a> {
    pub lines: Vec<&'a [u8]>,
    pub lines_nl: Vec<&'a [u8]>,
    pub words: Vec<&'a [u8]>,
    pub chars: Vec<&'a [u8]>,
    #[cfg(feature = "unicode")]
    pub uwords: Vec<&'a [u8]>,
    #[cfg(feature = "unicode")]
    pub graphemes: Vec<&'a [u8]>,
}

fn tokenize<'a, T: DiffableStr + ?Sized>(s: &'a T) -> Result<Toks<'a>, String> {
    fn b<'x, T: DiffableStr + ?Sized>(v: Vec<&'x T>) -> Vec<&'x [u8]> {
        v.into_iter().map(|t| t.as_bytes()).collect()
    }
    subject(|| Toks {
        lines: b(s.tokenize_lines()),
        lines_nl: b(s.tokenize_lines_and_newlines()),
        words: b(s.tokenize_words()),
        chars: b(s.tokenize_chars()),
        #[cfg(feature = "unicode")]
        uwords: b(s.tokenize_unicode_words()),
        #[cfg(feature = "unicode")]
        graphemes: b(s.tokenize_graphemes()),
    })
    .map_err(|p| format!("tokenizer panic: {}", p))
}

/// All clauses for one input; `as_str` selects the str implementation (input must be UTF-8).
fn check_one(input: &[u8], t: &Toks, kind: &str) -> Result<(), String> {
    let n = |s: &str| format!("{} {}", kind, s);
    partition(&n("tokenize_lines"), input, &t.lines)?;
    partition(&n("tokenize_lines_and_newlines"), input, &t.lines_nl)?;
    partition(&n("tokenize_words"), input, &t.words)?;
    partition(&n("tokenize_chars"), input, &t.chars)?;
    #[cfg(feature = "unicode")]
    {
        partition(&n("tokenize_unicode_words"), input, &t.uwords)?;
        partition(&n("tokenize_graphemes"), input, &t.graphemes)?;
    }
    same(&n("tokenize_lines"), &t.lines, &ref_lines(input))?;
    // explicit shape clause (independent of the reference splitter)
    for (i, l) in t.lines.iter().enumerate() {
        let body_end = if l.ends_with(b"\r\n") {
            l.len() - 2
        } else if l.ends_with(b"\n") || l.ends_with(b"\r") {
            l.len() - 1
        } else {
            if i + 1 != t.lines.len() {
                return Err(format!(
                    "{}: line token #{} lacks a terminator but is not the last: {}",
                    n("tokenize_lines"),
                    i,
                    show(&t.lines)
                ));
            }
            l.len()
        };
        if l[..body_end].iter().any(|&c| c == b'\n' || c == b'\r') {
            return Err(format!(
                "{}: line token #{} contains a line break before its end: {}",
                n("tokenize_lines"),
                i,
                show(&t.lines)
            ));
        }
    }
    same(
        &n("tokenize_lines_and_newlines"),
        &t.lines_nl,
        &ref_runs(input, |c| c.nl),
    )?;
    same(&n("tokenize_words"), &t.words, &ref_runs(input, |c| c.ws))?;
    if std::str::from_utf8(input).is_ok() {
        let want: Vec<&[u8]> = ref_chars(input)
            .iter()
            .map(|c| &input[c.start..c.end])
            .collect();
        same(&n("tokenize_chars"), &t.chars, &want)?;
    } else {
        // invalid UTF-8: a token is one valid scalar, or an invalid piece of at most 3 bytes
        // that is not valid UTF-8 and contains no ASCII byte
        for tok in &t.chars {
            match std::str::from_utf8(tok) {
                Ok(s) => {
                    if s.chars().count() != 1 {
                        return Err(format!(
                            "{}: token {:?} is not a single scalar value: {}",
                            n("tokenize_chars"),
                            s,
                            show(&t.chars)
                        ));
                    }
                }
                Err(_) => {
                    if tok.len() > 3 || tok.iter().any(|b| b.is_ascii()) {
                        return Err(format!(
                            "{}: invalid piece {:?} is longer than 3 bytes or swallows ASCII: {}",
                            n("tokenize_chars"),
                            tok,
                            show(&t.chars)
                        ));
                    }
                }
            }
        }
    }
    Ok(())
}

pub fn check_bytes(input: &[u8]) -> Result<(bool, u64, u64), String> {
    let tb = tokenize::<[u8]>(input)?;
    check_one(input, &tb, "[u8]")?;
    let mut fp = Fp::new();
    let mut ntok = 0u64;
    for v in [&tb.lines, &tb.lines_nl, &tb.words, &tb.chars] {
        fp.add(v.len() as u64);
        ntok += v.len() as u64;
        for t in v.iter() {
            fp.add(t.len() as u64);
        }
    }
    #[cfg(feature = "unicode")]
    for v in [&tb.uwords, &tb.graphemes] {
        fp.add(v.len() as u64);
        ntok += v.len() as u64;
        for t in v.iter() {
            fp.add(t.len() as u64);
        }
    }
    if let Ok(s) = std::str::from_utf8(input) {
        let ts = tokenize::<str>(s)?;
        check_one(input, &ts, "str")?;
        same("str vs [u8] tokenize_lines", &ts.lines, &tb.lines)?;
        same(
            "str vs [u8] tokenize_lines_and_newlines",
            &ts.lines_nl,
            &tb.lines_nl,
        )?;
        same("str vs [u8] tokenize_words", &ts.words, &tb.words)?;
        same("str vs [u8] tokenize_chars", &ts.chars, &tb.chars)?;
    }
    // the input as a VIEW into a larger buffer whose neighbouring bytes would change the
    // tokens if a tokenizer looked past the ends of the slice it was given
    const NEIGHBOURS: [(&[u8], &[u8]); 4] = [
        (b"\r", b"\n"),
        (b"a", b"a"),
        (b"\xe2\x80\x8d", b"\xcc\x81"),
        (b"\xe2\x82", b"\xac"),
    ];
    for (pre, post) in NEIGHBOURS.iter() {
        let mut buf = pre.to_vec();
        buf.extend_from_slice(input);
        buf.extend_from_slice(post);
        let view = &buf[pre.len()..pre.len() + input.len()];
        let what = |t: &str, ty: &str| format!("{} {} of the input as a view between {:?} and {:?} vs the input on its own", ty, t, String::from_utf8_lossy(pre), String::from_utf8_lossy(post));
        let tv = tokenize::<[u8]>(view)?;
        same(&what("tokenize_lines", "[u8]"), &tv.lines, &tb.lines)?;
        same(&what("tokenize_lines_and_newlines", "[u8]"), &tv.lines_nl, &tb.lines_nl)?;
        same(&what("tokenize_words", "[u8]"), &tv.words, &tb.words)?;
        same(&what("tokenize_chars", "[u8]"), &tv.chars, &tb.chars)?;
        #[cfg(feature = "unicode")]
        {
            same(&what("tokenize_unicode_words", "[u8]"), &tv.uwords, &tb.uwords)?;
            same(&what("tokenize_graphemes", "[u8]"), &tv.graphemes, &tb.graphemes)?;
        }
        if let (Ok(whole), Ok(_)) = (std::str::from_utf8(&buf), std::str::from_utf8(input)) {
            if std::str::from_utf8(pre).is_ok() {
                let sv = &whole[pre.len()..pre.len() + input.len()];
                let ts = tokenize::<str>(sv)?;
                same(&what("tokenize_lines", "str"), &ts.lines, &tb.lines)?;
                same(&what("tokenize_lines_and_newlines", "str"), &ts.lines_nl, &tb.lines_nl)?;
                same(&what("tokenize_words", "str"), &ts.words, &tb.words)?;
                same(&what("tokenize_chars", "str"), &ts.chars, &tb.chars)?;
            }
        }
    }
    // the tokens a text diff is built from are the tokenizer's, whatever the SAME configuration
    // object tokenized before: one TextDiffConfig runs a circuit through every ordered pair of
    // constructors on the same two texts (quick tier: inputs of up to 3 bytes)
    if modes_wanted(input.len(), 3) {
        let mut other = input.to_vec();
        other.push(b'x');
        let to = tokenize::<[u8]>(&other)?;
        let r = subject(|| -> Result<(), String> {
            let cfg = similar::TextDiff::configure();
            let k = if cfg!(feature = "unicode") { 5 } else { 3 };
            // Eulerian circuit of the complete digraph with loops on k constructors
            let mut circuit = vec![0usize];
            let mut used = vec![vec![false; k]; k];
            let mut stack = vec![0usize];
            let mut out = vec![];
            while let Some(&v) = stack.last() {
                if let Some(w) = (0..k).find(|&w| !used[v][w]) {
                    used[v][w] = true;
                    stack.push(w);
                } else {
                    out.push(stack.pop().unwrap());
                }
            }
            out.reverse();
            circuit.extend(out.into_iter().skip(1));
            let mut prev = usize::MAX;
            for &t in &circuit {
                let (want_o, want_n, name): (&Vec<&[u8]>, &Vec<&[u8]>, &str) = match t {
                    0 => (&tb.lines, &to.lines, "diff_lines"),
                    1 => (&tb.words, &to.words, "diff_words"),
                    2 => (&tb.chars, &to.chars, "diff_chars"),
                    #[cfg(feature = "unicode")]
                    3 => (&tb.uwords, &to.uwords, "diff_unicode_words"),
                    #[cfg(feature = "unicode")]
                    _ => (&tb.graphemes, &to.graphemes, "diff_graphemes"),
                    #[cfg(not(feature = "unicode"))]
                    _ => unreachable!(),
                };
                let d = match t {
                    0 => cfg.diff_lines(input, &other[..]),
                    1 => cfg.diff_words(input, &other[..]),
                    2 => cfg.diff_chars(input, &other[..]),
                    #[cfg(feature = "unicode")]
                    3 => cfg.diff_unicode_words(input, &other[..]),
                    #[cfg(feature = "unicode")]
                    _ => cfg.diff_graphemes(input, &other[..]),
                    #[cfg(not(feature = "unicode"))]
                    _ => unreachable!(),
                };
                let got_o: Vec<&[u8]> = d.old_slices().iter().map(|x| &x[..]).collect();
                let got_n: Vec<&[u8]> = d.new_slices().iter().map(|x| &x[..]).collect();
                if &got_o != want_o || &got_n != want_n {
                    return Err(format!(
                        "TextDiffConfig::{} right after {} on the same configuration and the same texts is built from tokens {} / {}; the tokenizer gives {} / {}",
                        name,
                        if prev == usize::MAX { "nothing".to_string() } else { ["diff_lines", "diff_words", "diff_chars", "diff_unicode_words", "diff_graphemes"][prev].to_string() },
                        show(&got_o),
                        show(&got_n),
                        show(want_o),
                        show(want_n)
                    ));
                }
                prev = t;
            }
            Ok(())
        })
        .map_err(|p| format!("one TextDiffConfig through every pair of constructors: panic: {}", p))?;
        r?;
    }
    let nontrivial = tb.chars.len() >= 2 && (tb.lines.len() >= 2 || tb.words.len() >= 2);
    Ok((nontrivial, ntok, fp.0))
}

fn build(letters: &[&[u8]], word: &[usize], out: &mut Vec<u8>) {
    out.clear();
    for &l in word {
        out.extend_from_slice(letters[l]);
    }
}

const CHUNK: u64 = 2048;

fn explore_alphabet(cfg: &RunCfg, letters: &[&[u8]], max_len: usize) -> Explored {
    let total = count_words(letters.len(), max_len);
    let nshards = ((total + CHUNK - 1) / CHUNK) as usize;
    explore(cfg, nshards, |shard, acc| {
        let mut word = vec![];
        let mut text = vec![];
        let lo = shard as u64 * CHUNK;
        let hi = (lo + CHUNK).min(total);
        for idx in lo..hi {
            nth_word(letters.len(), idx, &mut word);
            build(letters, &word, &mut text);
            match check_bytes(&text) {
                Ok((nt, ntok, fp)) => {
                    if acc.want_sample() {
                        acc.sample(json!({"bytes": text, "lossy": String::from_utf8_lossy(&text)}));
                    }
                    acc.ok(nt, ntok, fp);
                }
                Err(e) => acc.violation(|| {
                    (
                        json!({"bytes": text, "lossy": String::from_utf8_lossy(&text)}),
                        e,
                    )
                }),
            }
            if acc.stop() {
                return;
            }
        }
    })
}

pub fn run(cfg: &RunCfg) -> CheckReport {
    let mut rep = CheckReport::new(
        "exploration",
        "part 'chars': every string of up to L characters over the 14-character alphabet {a, space, LF, CR, TAB, NUL, e-acute, NBSP, U+2028, U+3000, U+0085, U+0301, ZWJ, regional-indicator A}, tokenized by the str and the [u8] implementations; part 'bytes': every byte string of up to L bytes over 15 bytes {a, space, LF, CR, C3, A9, C2, 85, A0, E2, 82, AC, F0, 9F, FF} (valid, truncated and invalid sequences), [u8] implementation and, when the bytes are valid UTF-8, the str one. Six tokenizers each. Non-trivial: at least 2 char tokens and at least 2 line or word tokens. Strings are distinct by construction within a part; the parts overlap only in strings over {a, space, LF, CR}.",
    );
    rep.assume("reference tokenizers in the harness; whitespace = char::is_whitespace; invalid UTF-8 delimited by the standard library's maximal-subpart rule, char tokens over invalid bytes only required to be <= 3 bytes, not UTF-8, ASCII-free");
    rep.assume("for the two unicode tokenizers only losslessness and non-emptiness are required (as stated)");
    rep.assume("every input is additionally tokenized as a view into a larger buffer (4 neighbour pairs: CR before / LF after, letters, ZWJ before / combining mark after, the two halves of a split multi-byte character) and must give the tokens of the input on its own");
    rep.assume("one TextDiffConfig object is run through an Eulerian circuit over all ordered pairs of its constructors on the same two texts; each diff's old_slices / new_slices must be the direct tokenizer's output (quick tier: inputs of up to 3 bytes; thorough: up to 6 bytes)");
    let l = cfg.tier.pick(5, 6);
    let letters: Vec<&[u8]> = CHARS.iter().map(|s| s.as_bytes()).collect();
    let ex = explore_alphabet(cfg, &letters, l);
    rep.part("chars", json!({"alphabet": CHARS, "max_len": l}), ex);
    if rep.has_violation() {
        return rep;
    }
    let letters: Vec<Vec<u8>> = BYTES.iter().map(|b| vec![*b]).collect();
    let letters: Vec<&[u8]> = letters.iter().map(|v| &v[..]).collect();
    let ex = explore_alphabet(cfg, &letters, l);
    rep.part("bytes", json!({"alphabet": BYTES, "max_len": l}), ex);
    if rep.has_violation() {
        return rep;
    }
    // enumerated rich corpus: every concatenation of up to k atoms (other scripts, ZWJ emoji,
    // flags, every separator, invalid sequences of 1-8 bytes)
    let k = cfg.tier.pick(3, 4);
    let texts = super::richtext::atom_texts(k);
    let chunk = 256;
    let nsh = (texts.len() + chunk - 1) / chunk;
    let ex = explore(cfg, nsh, |shard, acc| {
        for text in &texts[shard * chunk..((shard + 1) * chunk).min(texts.len())] {
            match check_bytes(text) {
                Ok((nt, ntok, fp)) => {
                    if acc.want_sample() {
                        acc.sample(json!({"bytes": text, "lossy": String::from_utf8_lossy(text)}));
                    }
                    acc.ok(nt, ntok, fp);
                }
                Err(e) => acc.violation(|| (json!({"bytes": text, "lossy": String::from_utf8_lossy(text)}), e)),
            }
            if acc.stop() {
                return;
            }
        }
    });
    rep.part("rich-corpus", json!({"atoms": super::richtext::atoms().len(), "max_atoms_per_text": k, "texts": texts.len(), "note": "enumerated family, not exhaustive"}), ex);
    if rep.has_violation() {
        return rep;
    }
    // position sweep: every atom at every byte offset 0..=P inside a filler of 1-, 2- and 3-byte
    // characters (block / chunk boundaries of any size up to P), and the long texts
    let maxpos = cfg.tier.pick(140, 300);
    let atoms = super::richtext::atoms();
    let fillers: [&[u8]; 3] = [b"a", "\u{e9}".as_bytes(), "\u{4e2d}".as_bytes()];
    let mut long: Vec<Vec<u8>> = vec![];
    for (name, old, new) in super::richtext::long_pairs(&super::large::all(cfg.tier, cfg.seed), cfg.tier.pick(130, 300)) {
        let _ = name;
        long.push(old.into_bytes());
        long.push(new.into_bytes());
    }
    let n_sweep = atoms.len() * fillers.len();
    let ex = explore(cfg, n_sweep + (long.len() + 15) / 16, |shard, acc| {
        let one = |text: &[u8], acc: &mut Acc| {
            match check_bytes(text) {
                Ok((nt, ntok, fp)) => {
                    if acc.want_sample() {
                        acc.sample(json!({"bytes_len": text.len(), "lossy_prefix": String::from_utf8_lossy(&text[..text.len().min(40)])}));
                    }
                    acc.ok(nt, ntok, fp);
                }
                Err(e) => acc.violation(|| (json!({"bytes": text, "lossy": String::from_utf8_lossy(text)}), e)),
            }
        };
        if shard < n_sweep {
            let atom = &atoms[shard / fillers.len()];
            let filler = fillers[shard % fillers.len()];
            for pos in 0..=maxpos {
                let mut t = vec![];
                while t.len() < pos {
                    t.extend_from_slice(filler);
                }
                t.truncate(pos - pos % filler.len());
                // pad with ASCII so that the atom starts exactly at byte offset `pos`
                while t.len() < pos {
                    t.push(b'x');
                }
                t.extend_from_slice(atom);
                t.extend_from_slice(filler);
                t.extend_from_slice(b"z\n");
                one(&t, acc);
                if acc.stop() {
                    return;
                }
            }
        } else {
            let lo = (shard - n_sweep) * 16;
            for t in &long[lo..(lo + 16).min(long.len())] {
                one(t, acc);
                if acc.stop() {
                    return;
                }
            }
        }
    });
    if ex.acc.violation.is_none() {
        // every atom right before / at / after each power-of-two byte offset up to 2^17
        // (buffer, block and sample sizes), in ASCII filler
        let mut offs: Vec<usize> = vec![];
        for k in 6..=cfg.tier.pick(17u32, 20u32) {
            let p = 1usize << k;
            offs.extend_from_slice(&[p - 2, p - 1, p, p + 1]);
        }
        let ex2 = explore(cfg, atoms.len(), |shard, acc| {
            let atom = &atoms[shard];
            for &pos in &offs {
                let mut t = vec![b'a'; pos];
                t.extend_from_slice(atom);
                t.extend_from_slice(b"a z\n");
                match check_bytes(&t) {
                    Ok((nt, ntok, fp)) => {
                        if pos == 65535 && shard % 13 == 0 {
                            acc.sample(json!({"atom": String::from_utf8_lossy(atom), "byte_offset": pos}));
                        }
                        acc.ok(nt, ntok, fp ^ pos as u64);
                    }
                    Err(e) => {
                        let short = if e.len() > 600 { format!("{} ...", &e[..e.char_indices().nth(600).map_or(e.len(), |x| x.0)]) } else { e };
                        acc.violation(|| (json!({"power_of_two_sweep": true, "atom": atom, "byte_offset": pos}), format!("atom {:?} at byte offset {} of an ASCII filler: {}", String::from_utf8_lossy(atom), pos, short)))
                    }
                }
                if acc.stop() {
                    return;
                }
            }
        });
        rep.part("positions-power-of-two", json!({"atoms": atoms.len(), "offsets": "2^k-2 .. 2^k+1 for k = 6..17 (thorough: ..20)", "note": "enumerated family"}), ex2);
    }
    rep.part("positions-and-long-texts", json!({"atoms": atoms.len(), "fillers": ["a", "e-acute", "CJK"], "offsets": format!("0..={}", maxpos), "long_texts": long.len(), "note": "enumerated family"}), ex);
    rep
}

pub fn replay(case: &Value) -> Result<String, String> {
    if case.get("power_of_two_sweep").is_some() {
        let atom = parse_bytes(case, "atom")?;
        let pos = parse_u64(case, "byte_offset")? as usize;
        let mut t = vec![b'a'; pos];
        t.extend_from_slice(&atom);
        t.extend_from_slice(b"a z\n");
        return check_bytes(&t).map(|(_, n, fp)| format!("holds; {} tokens, fingerprint {:x}", n, fp)).map_err(|e| e.chars().take(800).collect());
    }
    let b = parse_bytes(case, "bytes")?;
    check_bytes(&b).map(|(_, n, fp)| format!("holds; {} tokens, fingerprint {:x}", n, fp))
}
