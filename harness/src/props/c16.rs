//! C16 — inline changes re-split each line losslessly; only changed words are emphasised.

use super::common::*;
use crate::engine::*;
use crate::instr::{arm_clock, some_deadline};
use crate::oracles::*;
use serde_json::{json, Value};
use similar::{Algorithm, ChangeTag, DiffTag, DiffableStr, TextDiff};
use std::collections::BTreeSet;

fn lossy(b: &[u8]) -> String {
    format!("{:?}", String::from_utf8_lossy(b))
}

type Flat = (ChangeTag, Option<usize>, Option<usize>, Vec<(bool, Vec<u8>)>, bool);

/// deadline mode: 0 = none, 1 = the default iter_inline_changes (its own 500 ms deadline,
/// answered by a never-expiring virtual clock), 2.. = virtual clock expiring at probe k-2
fn inline_of<'a, T: DiffableStr + ?Sized>(
    diff: &'a TextDiff<'a, 'a, 'a, T>,
    op: &similar::DiffOp,
    mode: u64,
) -> (Vec<Flat>, u64) {
    let clock = arm_clock(if mode >= 2 { mode - 2 } else { u64::MAX });
    let v: Vec<Flat> = if mode == 1 {
        diff.iter_inline_changes(op)
            .map(|c| {
                (
                    c.tag(),
                    c.old_index(),
                    c.new_index(),
                    c.values().iter().map(|(e, s)| (*e, s.as_bytes().to_vec())).collect(),
                    c.missing_newline(),
                )
            })
            .collect()
    } else {
        let dl = if mode == 0 { None } else { some_deadline() };
        diff.iter_inline_changes_deadline(op, dl)
            .map(|c| {
                (
                    c.tag(),
                    c.old_index(),
                    c.new_index(),
                    c.values().iter().map(|(e, s)| (*e, s.as_bytes().to_vec())).collect(),
                    c.missing_newline(),
                )
            })
            .collect()
    };
    let p = clock.probes.get();
    similar::verif::set_clock(None);
    (v, p)
}

/// how the line diff is constructed: 0 = diff_lines, 1 = diff_lines with
/// newline_terminated(false), 2 = caller-split lines through diff_slices
fn check_diff<T: DiffableStr + ?Sized>(alg: Algorithm, old: &T, new: &T, kind: &str) -> Result<(u64, u64, u64, bool), String> {
    let mut total = (0, 0, 0, false);
    for construction in 0..4 {
        let r = check_diff_with(alg, old, new, kind, construction)
            .map_err(|e| format!("[{}] {}", ["diff_lines", "diff_lines + newline_terminated(false)", "diff_slices over caller-split lines", "diff_slices over lines the caller split at LF only (CR stays inside the lines)"][construction], e))?;
        total.0 += r.0;
        total.1 += r.1;
        total.2 ^= r.2.rotate_left(construction as u32);
        total.3 |= r.3;
    }
    Ok(total)
}

fn check_diff_with<T: DiffableStr + ?Sized>(alg: Algorithm, old: &T, new: &T, kind: &str, construction: usize) -> Result<(u64, u64, u64, bool), String> {
    let r = subject(|| -> Result<(u64, u64, u64, bool), String> {
        let lo = old.tokenize_lines();
        let ln = new.tokenize_lines();
        // lines cut after every LF only
        let lf_split = |t: &'_ T| -> Vec<std::ops::Range<usize>> {
            let b = t.as_bytes();
            let mut v = vec![];
            let mut start = 0;
            for (i, &c) in b.iter().enumerate() {
                if c == b'\n' {
                    v.push(start..i + 1);
                    start = i + 1;
                }
            }
            if start < b.len() {
                v.push(start..b.len());
            }
            v
        };
        // (DiffableStr::slice counts in the type's own units: bytes for str and [u8])
        let lo2: Vec<&T> = lf_split(old).into_iter().map(|r| old.slice(r)).collect();
        let ln2: Vec<&T> = lf_split(new).into_iter().map(|r| new.slice(r)).collect();
        let diff = match construction {
            0 => TextDiff::configure().algorithm(alg).diff_lines(old, new),
            1 => TextDiff::configure().algorithm(alg).newline_terminated(false).diff_lines(old, new),
            2 => TextDiff::configure().algorithm(alg).diff_slices(&lo, &ln),
            _ => TextDiff::configure().algorithm(alg).newline_terminated(true).diff_slices(&lo2, &ln2),
        };
        let mut fp = Fp::new();
        let mut expansions = 0;
        let mut segs = 0;
        let mut emphasised_any = false;
        for (op_no, op) in diff.ops().iter().enumerate() {
            let plain: Vec<_> = diff.iter_changes(op).collect();
            let is_replace = op.tag() == DiffTag::Replace;
            // the expansion does not depend on how its iterator is consumed, nor on having been
            // asked for before (first two ops and the last one of every diff)
            if (op_no < 2 || op_no + 1 == diff.ops().len()) && modes_wanted(old.as_bytes().len() + new.as_bytes().len(), 5) {
                let flat = |c: similar::InlineChange<'_, T>| -> Flat {
                    (
                        c.tag(),
                        c.old_index(),
                        c.new_index(),
                        c.values().iter().map(|(e, s)| (*e, s.as_bytes().to_vec())).collect(),
                        c.missing_newline(),
                    )
                };
                consumption_modes(
                    &|| format!("{} {} op {:?}: iter_inline_changes_deadline(None)", kind, alg_name(alg), op),
                    || diff.iter_inline_changes_deadline(op, None),
                    flat,
                )?;
                crate::both_ends_modes!(
                    || format!("{} {} op {:?}: iter_inline_changes_deadline(None)", kind, alg_name(alg), op),
                    || diff.iter_inline_changes_deadline(op, None),
                    flat
                )?;
                for c in diff.iter_inline_changes_deadline(op, None) {
                    let lossy_strings: Vec<(bool, String)> = c.iter_strings_lossy().map(|(e, s)| (e, s.to_string())).collect();
                    let want: Vec<(bool, String)> = c.values().iter().map(|(e, s)| (*e, s.to_string_lossy().to_string())).collect();
                    if lossy_strings != want {
                        return Err(format!(
                            "{} {} op {:?}: iter_strings_lossy() gives {:?}, values() decode to {:?}",
                            kind, alg_name(alg), op, lossy_strings, want
                        ));
                    }
                }
            }
            // never-expiring clock first: how many expiry points does this op have?
            let (_, probes) = inline_of(&diff, op, 1);
            let modes: Vec<u64> = if is_replace {
                (0..2 + probes.max(1)).collect()
            } else {
                vec![0, 1, 2]
            };
            for mode in modes {
                let (inl, _) = inline_of(&diff, op, mode);
                expansions += 1;
                let what = |e: String| {
                    format!(
                        "{} {} op {:?}, inline deadline mode {} ({}): {}",
                        kind,
                        alg_name(alg),
                        op,
                        mode,
                        match mode {
                            0 => "no deadline".to_string(),
                            1 => "default deadline, never expiring".to_string(),
                            k => format!("expiring at probe {}", k - 2),
                        },
                        e
                    )
                };
                if inl.len() != plain.len() {
                    return Err(what(format!(
                        "{} inline changes for {} plain changes",
                        inl.len(),
                        plain.len()
                    )));
                }
                for (i, (ic, pc)) in inl.iter().zip(plain.iter()).enumerate() {
                    if ic.0 != pc.tag() || ic.1 != pc.old_index() || ic.2 != pc.new_index() {
                        return Err(what(format!(
                            "change #{}: inline ({:?}, {:?}, {:?}) vs plain ({:?}, {:?}, {:?})",
                            i,
                            ic.0,
                            ic.1,
                            ic.2,
                            pc.tag(),
                            pc.old_index(),
                            pc.new_index()
                        )));
                    }
                    let line = pc.value().as_bytes();
                    let cat: Vec<u8> = ic.3.iter().flat_map(|(_, s)| s.iter().copied()).collect();
                    if cat != line {
                        return Err(what(format!(
                            "change #{}: segments {:?} concatenate to {} instead of the line {}",
                            i,
                            ic.3.iter().map(|(e, s)| (*e, String::from_utf8_lossy(s).to_string())).collect::<Vec<_>>(),
                            lossy(&cat),
                            lossy(line)
                        )));
                    }
                    for (e, s) in &ic.3 {
                        segs += 1;
                        if *e {
                            emphasised_any = true;
                            if !is_replace || ic.0 == ChangeTag::Equal {
                                return Err(what(format!(
                                    "change #{}: emphasised segment {} outside a Delete/Insert of a Replace op",
                                    i,
                                    lossy(s)
                                )));
                            }
                            if s.iter().any(|&b| b == b'\n' || b == b'\r') {
                                return Err(what(format!(
                                    "change #{}: emphasised segment {} contains a line break",
                                    i,
                                    lossy(s)
                                )));
                            }
                        }
                    }
                    if ic.4 != pc.missing_newline() {
                        return Err(what(format!(
                            "change #{}: missing_newline() is {} for the inline change but {} for the line {}",
                            i,
                            ic.4,
                            pc.missing_newline(),
                            lossy(line)
                        )));
                    }
                    fp.add(ic.3.len() as u64 + 8 * ic.0 as u64);
                }
            }
        }
        Ok((expansions, segs, fp.0, emphasised_any))
    });
    match r {
        Err(p) => Err(format!("{} {}: panic: {}", kind, alg_name(alg), p)),
        Ok(x) => x,
    }
}

pub fn check_pair(old: &[u8], new: &[u8]) -> Result<(bool, u64, u64), String> {
    let mut fp = Fp::new();
    let mut n = 0;
    let mut nontrivial = false;
    let as_str = match (std::str::from_utf8(old), std::str::from_utf8(new)) {
        (Ok(a), Ok(b)) => Some((a, b)),
        _ => None,
    };
    for &alg in ALGS.iter() {
        let r = check_diff::<[u8]>(alg, old, new, "[u8]")?;
        n += r.0;
        fp.add(r.2);
        nontrivial |= r.3;
        if let Some((a, b)) = as_str {
            let r = check_diff::<str>(alg, a, b, "str")?;
            n += r.0;
            fp.add(r.2);
        }
    }
    Ok((nontrivial, n, fp.0))
}

pub fn texts(letters: &[&[u8]], max_len: usize) -> Vec<Vec<u8>> {
    let mut set = BTreeSet::new();
    let total = super::c06::count_words(letters.len(), max_len);
    let mut w = vec![];
    for idx in 0..total {
        super::c06::nth_word(letters.len(), idx, &mut w);
        let mut t = vec![];
        for &i in &w {
            t.extend_from_slice(letters[i]);
        }
        set.insert((t.len(), t));
    }
    set.into_iter().map(|x| x.1).collect()
}

fn text_case(old: &[u8], new: &[u8]) -> Value {
    json!({"old": old, "new": new, "old_lossy": String::from_utf8_lossy(old), "new_lossy": String::from_utf8_lossy(new)})
}

pub fn run(cfg: &RunCfg) -> CheckReport {
    let unicode = cfg!(feature = "unicode");
    let mut rep = CheckReport::new(
        "exploration",
        "every ordered pair of texts of each listed family (all strings of up to L letters; deduplicated) x 3 algorithms x {[u8], str} x every op of the line diff x inline deadline mode {none, default 500 ms deadline under a never-expiring virtual clock, virtual clock expiring at probe k for every k the op's inline diff makes}; one case = one text pair. Oracle: same tags/indices as the plain expansion, segments concatenate to the line, emphasis only inside Delete/Insert of a Replace op and never over CR/LF, missing_newline agrees. Non-trivial: some change carries an emphasised segment. Pairs are distinct within a family.",
    );
    rep.assume("H1 virtual clock answers the inline diff's deadline probes");
    rep.assume("consumption modes and iter_strings_lossy: the inline expansion of the first two and the last op; quick tier on text pairs of up to 5 bytes in total, thorough tier 3 bytes more");
    rep.extra.insert("similar_unicode_feature".into(), json!(unicode));
    if let Ok(side) = std::env::var("VERIF_C16_SIDE") {
        if let Some(v) = std::fs::read_to_string(&side)
            .ok()
            .and_then(|s| serde_json::from_str::<Value>(&s).ok())
        {
            rep.extra.insert(
                "same_check_built_without_the_unicode_feature".into(),
                json!({"coverage": v.get("coverage").map(|c| json!({
                    "evaluations": c.get("evaluations"),
                    "distinct_nontrivial": c.get("distinct_nontrivial"),
                    "exhaustive": c.get("exhaustive"),
                    "parts": c.get("parts"),
                })), "violations": v.get("violations"), "wall_s": v.get("wall_s")}),
            );
        }
    }
    let q = cfg.tier == Tier::Quick;
    let fams: Vec<(&str, Vec<Vec<u8>>)> = vec![
        ("words", texts(&[b"a", b"b", b" ", b"\n"], if q { 4 } else { 6 })),
        (
            "terminators-and-multibyte",
            texts(&[b"a", "\u{e9} ".as_bytes(), b" b", b"\n", b"\r", b"\r\n"], if q { 3 } else { 4 }),
        ),
        (
            "invalid-utf8",
            texts(&[b"a", b" ", b"\xff", b"\xe2\x82", b"\n"], if q { 3 } else { 5 }),
        ),
    ];
    for (name, ts) in fams {
        let ex = explore(cfg, ts.len(), |shard, acc| {
            let old = &ts[shard];
            for new in &ts {
                match check_pair(old, new) {
                    Ok((nt, n, fp)) => {
                        if acc.want_sample() {
                            acc.sample(text_case(old, new));
                        }
                        acc.count("op_expansions", n);
                        acc.ok(nt, n, fp);
                    }
                    Err(e) => acc.violation(|| (text_case(old, new), e)),
                }
                if acc.stop() {
                    return;
                }
            }
        });
        rep.part(name, json!({"texts": ts.len()}), ex);
        if rep.has_violation() {
            return rep;
        }
    }
    // enumerated rich corpus: lines "w atom w LF" in a two-line context, so that replaced lines
    // are similar enough for the inline diff to run
    let atoms = super::richtext::atoms();
    let mut rich: Vec<Vec<u8>> = vec![];
    for a in atoms.iter().step_by(cfg.tier.pick(2, 1)) {
        for shape in 0..3 {
            let mut t = b"k x\n".to_vec();
            match shape {
                0 => {
                    t.extend_from_slice(b"w ");
                    t.extend_from_slice(a);
                    t.extend_from_slice(b" z\n");
                }
                1 => {
                    t.extend_from_slice(a);
                    t.extend_from_slice(b" w z\n");
                }
                _ => {
                    t.extend_from_slice(b"w z ");
                    t.extend_from_slice(a);
                }
            }
            rich.push(t);
        }
    }
    rich.sort();
    rich.dedup();
    let ex = explore(cfg, rich.len(), |shard, acc| {
        let old = &rich[shard];
        for new in &rich {
            match check_pair(old, new) {
                Ok((nt, n, fp)) => {
                    if acc.want_sample() {
                        acc.sample(text_case(old, new));
                    }
                    acc.ok(nt, n, fp);
                }
                Err(e) => acc.violation(|| (text_case(old, new), e)),
            }
            if acc.stop() {
                return;
            }
        }
    });
    rep.part("rich-corpus", json!({"texts": rich.len(), "note": "enumerated family: a line containing each rich atom (other scripts, ZWJ emoji, separators, invalid bytes) in three positions"}), ex);
    if rep.has_violation() {
        return rep;
    }
    let inputs = super::large::all(cfg.tier, cfg.seed);
    let pairs = super::richtext::long_pairs(&inputs, cfg.tier.pick(60, 130));
    let ex = explore(cfg, pairs.len(), |shard, acc| {
        let (name, old, new) = &pairs[shard];
        match check_pair(old.as_bytes(), new.as_bytes()) {
            Ok((nt, n, fp)) => {
                if shard % 53 == 0 {
                    acc.sample(json!({"long_text_pair": name}));
                }
                acc.ok(nt, n, fp);
            }
            Err(e) => acc.violation(|| (text_case(old.as_bytes(), new.as_bytes()), format!("{}: {}", name, e))),
        }
    });
    rep.part("long-texts", json!({"pairs": pairs.len(), "note": "enumerated family: long line texts (1-5 words per line, LF / CRLF / CR) derived from the large sequence inputs"}), ex);
    if rep.has_violation() {
        return rep;
    }
    // long LINES: lines of a words against the same line with b words appended / prepended /
    // substituted in the middle, alone or followed by a second changed line (word-token counts
    // on both sides of typical chunk sizes: 8, 64, 128, 256)
    let mk = |from: usize, n: usize| -> String {
        (from..from + n).map(|i| format!("w{}", i)).collect::<Vec<_>>().join(" ")
    };
    let mut lines: Vec<(String, String)> = vec![];
    let a_list: Vec<usize> = cfg.tier.pick(vec![3, 22, 63, 64, 65, 127, 128, 129, 200], vec![3, 4, 5, 22, 31, 32, 33, 63, 64, 65, 127, 128, 129, 200, 255, 256, 257, 400]);
    let b_list: Vec<usize> = cfg.tier.pick(vec![1, 43, 130], vec![1, 2, 43, 64, 130, 260]);
    for &a in &a_list {
        for &b in &b_list {
            let base = mk(0, a);
            lines.push((format!("{}\n", base), format!("{} {}\n", base, mk(1000, b))));
            lines.push((format!("{} {}\n", base, mk(1000, b)), format!("{}\n", base)));
            lines.push((format!("{}\n", base), format!("{} {}\n", mk(1000, b), base)));
            lines.push((format!("{} {} {}\n", mk(0, a / 2), mk(2000, b), mk(a / 2, a - a / 2)), format!("{}\n", base)));
            lines.push((format!("{}\nq r s\n", base), format!("{} {}\nq r t\n", base, mk(1000, b))));
            lines.push((format!("{}", base), format!("{} {}\r\n", base, mk(1000, b))));
        }
    }
    let ex = explore(cfg, lines.len(), |shard, acc| {
        let (old, new) = &lines[shard];
        match check_pair(old.as_bytes(), new.as_bytes()) {
            Ok((nt, n, fp)) => {
                if shard % 41 == 0 {
                    acc.sample(json!({"old_words": old.split_whitespace().count(), "new_words": new.split_whitespace().count()}));
                }
                acc.ok(nt, n, fp);
            }
            Err(e) => acc.violation(|| (text_case(old.as_bytes(), new.as_bytes()), e)),
        }
    });
    rep.part("long-lines", json!({"pairs": lines.len(), "line_lengths_in_words": a_list, "edit_sizes_in_words": b_list, "note": "enumerated family"}), ex);
    rep
}

pub fn replay(case: &Value) -> Result<String, String> {
    let old = parse_bytes(case, "old")?;
    let new = parse_bytes(case, "new")?;
    check_pair(&old, &new).map(|r| format!("holds; {} op expansions, fingerprint {:x}", r.1, r.2))
}
