//! C20 — diffs are deterministic and depend only on the equality pattern of the items.
//!
//! The crate has no shared mutable state and no synchronisation, so the only sources of
//! run-to-run variation are the hash-map seeds / iteration orders (seam H3) and the call
//! history on a thread.  Both are enumerated.

use super::cap::{toks, TOKENS};
use super::common::*;
use super::text::{TextSpace, LETTERS_VALID};
use crate::engine::*;
use crate::oracles::*;
use crate::spaces::*;
use serde_json::{json, Value};
use similar::algorithms::IdentifyDistinct;
use similar::{Algorithm, DiffOp, TextDiff};
use std::hash::Hash;

fn cap<T: Hash + Eq + Ord>(alg: Algorithm, old: &[T], new: &[T]) -> Vec<DiffOp> {
    similar::capture_diff_slices(alg, old, new)
}

/// everything seed-sensitive for one input: Patience ops, the >100-token text-diff path
/// (IdentifyDistinct) and the id assignment itself
fn seed_sensitive(old: &[u8], new: &[u8]) -> (Vec<DiffOp>, Vec<DiffOp>, Vec<u32>) {
    let p = cap(Algorithm::Patience, old, new);
    // padded to > 100 tokens so that the text diff maps items to integers
    let mut o: Vec<&str> = vec![TOKENS[15]; 101];
    o.extend(toks(old));
    let mut n: Vec<&str> = vec![TOKENS[15]; 101];
    n.extend(toks(new));
    let t = TextDiff::configure()
        .algorithm(Algorithm::Patience)
        .diff_slices(&o, &n)
        .ops()
        .to_vec();
    let h = IdentifyDistinct::<u32>::new(old, 0..old.len(), new, 0..new.len());
    let ids: Vec<u32> = (0..old.len())
        .map(|i| h.old_lookup()[i])
        .chain((0..new.len()).map(|i| h.new_lookup()[i]))
        .collect();
    (p, t, ids)
}

pub fn check_seeds(old: &[u8], new: &[u8], seeds: u64) -> Result<(bool, u64, u64), String> {
    let reference = subject(|| {
        similar::verif::set_hash_seed(Some(0));
        seed_sensitive(old, new)
    })
    .map_err(|p| format!("panic: {}", p))?;
    for seed in 1..seeds {
        let got = subject(|| {
            similar::verif::set_hash_seed(Some(seed.wrapping_mul(0x9E37_79B9_7F4A_7C15)));
            seed_sensitive(old, new)
        })
        .map_err(|p| format!("hasher seed #{}: panic: {}", seed, p))?;
        if got != reference {
            return Err(format!(
                "hasher seed #{} gives Patience ops {:?} / text ops {:?} / ids {:?}; seed #0 gives {:?} / {:?} / {:?}",
                seed, got.0, got.1, got.2, reference.0, reference.1, reference.2
            ));
        }
    }
    // every iteration order of the uniqueness maps
    let uniq = |s: &[u8]| -> usize {
        let mut c = [0u8; 256];
        for &x in s {
            c[x as usize] = c[x as usize].saturating_add(1);
        }
        c.iter().filter(|&&x| x == 1).count()
    };
    let u = uniq(old).max(uniq(new));
    let perms = if u <= 1 {
        1
    } else if u <= 6 {
        factorial(u)
    } else {
        // rotations x reversal for longer lists
        2 * u as u64
    };
    for code in 0..perms {
        let got = subject(|| {
            similar::verif::set_hash_seed(Some(0));
            similar::verif::set_scramble(Some(code));
            cap(Algorithm::Patience, old, new)
        })
        .map_err(|p| format!("iteration order #{}: panic: {}", code, p))?;
        if got != reference.0 {
            return Err(format!(
                "with the uniqueness map iterated in order #{} Patience gives {:?}; otherwise {:?}",
                code, got, reference.0
            ));
        }
    }
    Ok((u >= 2, seeds + perms, ops_fp(&reference.0)))
}

/// seeds, iteration orders and a relabelling on one large input (Patience and the text path)
pub fn check_large(_alg: Algorithm, inp: &super::large::LargeInput) -> Result<(bool, u64, u64), String> {
    let (old, new) = (&inp.old[..], &inp.new[..]);
    let run = |seed: u64, scramble: Option<u64>| -> Result<Vec<DiffOp>, String> {
        subject(|| {
            similar::verif::set_hash_seed(Some(seed));
            similar::verif::set_scramble(scramble);
            cap(Algorithm::Patience, old, new)
        })
        .map_err(|p| format!("panic: {}", p))
    };
    let reference = run(0, None)?;
    let mut runs = 1;
    for seed in 1..8u64 {
        let got = run(seed.wrapping_mul(0x9E37_79B9_7F4A_7C15), None)?;
        runs += 1;
        if got != reference {
            return Err(format!(
                "Patience ops change with the hasher seed (seed #{}: {} ops, seed #0: {} ops)",
                seed,
                got.len(),
                reference.len()
            ));
        }
    }
    for code in [1u64, 2, 3, 1001, 2 * old.len() as u64 + 1] {
        let got = run(0, Some(code))?;
        runs += 1;
        if got != reference {
            return Err(format!(
                "Patience ops change with the iteration order of the uniqueness map (order #{})",
                code
            ));
        }
    }
    // relabelling (other values, other hashes, other type)
    let o: Vec<u64> = old.iter().map(|&x| 7919 * x as u64 + 13).collect();
    let n: Vec<u64> = new.iter().map(|&x| 7919 * x as u64 + 13).collect();
    let got = subject(|| {
        similar::verif::set_hash_seed(Some(0));
        cap(Algorithm::Patience, &o, &n)
    })
    .map_err(|p| format!("panic: {}", p))?;
    runs += 1;
    if got != reference {
        return Err("Patience ops change under the relabelling x -> 7919x+13".into());
    }
    // the same items as lines of text: str against a caller-side DiffableStr with the same
    // equalities but other hashes (a legal, coarse hash: the line length only)
    if old.len() + new.len() <= 1200 {
        let to: String = old.iter().map(|x| format!("{}\n", x)).collect();
        let tn: String = new.iter().map(|x| format!("{}\n", x)).collect();
        for &alg in ALGS.iter() {
            if alg == Algorithm::Lcs && (old.len() > 300 || new.len() > 300) {
                continue;
            }
            let (a, b) = subject(|| {
                use crate::instr::Ch;
                (
                    TextDiff::configure().algorithm(alg).diff_lines(&to[..], &tn[..]).ops().to_vec(),
                    TextDiff::configure().algorithm(alg).diff_lines(Ch::new(to.as_bytes()), Ch::new(tn.as_bytes())).ops().to_vec(),
                )
            })
            .map_err(|p| format!("line diff: panic: {}", p))?;
            runs += 2;
            if a != b {
                return Err(format!(
                    "{}: the line diff of the same text changes when the lines keep their equalities but hash differently (a DiffableStr whose hash is the line length only): {} ops vs {} ops",
                    alg_name(alg),
                    a.len(),
                    b.len()
                ));
            }
        }
    }
    // more than 2^16 distinct lines in total: the ids TextDiff interns the lines into are a
    // relabelling like any other, so the line diff must be the diff of the items themselves
    if inp.name.starts_with("wide-") {
        let to: String = old.iter().map(|x| format!("{}\n", x)).collect();
        let tn: String = new.iter().map(|x| format!("{}\n", x)).collect();
        for &alg in [Algorithm::Myers, Algorithm::Patience].iter() {
            let (a, b) = subject(|| {
                similar::verif::set_hash_seed(None);
                (TextDiff::configure().algorithm(alg).diff_lines(&to[..], &tn[..]).ops().to_vec(), cap(alg, old, new))
            })
            .map_err(|p| format!("line diff: panic: {}", p))?;
            runs += 2;
            if a != b {
                return Err(format!(
                    "{}: the line diff of {} vs {} distinct lines ({} ops) differs from the diff of the same items as integers ({} ops): the result depends on more than the equality pattern",
                    alg_name(alg),
                    old.len(),
                    new.len(),
                    a.len(),
                    b.len()
                ));
            }
        }
    }
    Ok((true, runs, ops_fp(&reference)))
}

// ---- relabellings -------------------------------------------------------------------------

pub fn check_relabel(old: &[u8], new: &[u8]) -> Result<(bool, u64, u64), String> {
    let mut fp = Fp::new();
    let mut n = 0;
    for &alg in ALGS.iter() {
        let base = subject(|| cap(alg, old, new)).map_err(|p| format!("panic: {}", p))?;
        fp.add(ops_fp(&base));
        macro_rules! relabel {
            ($name:expr, $f:expr) => {{
                let o: Vec<_> = old.iter().map($f).collect();
                let nn: Vec<_> = new.iter().map($f).collect();
                let got = subject(|| cap(alg, &o, &nn)).map_err(|p| format!("{}: panic: {}", $name, p))?;
                n += 1;
                if got != base {
                    return Err(format!(
                        "{}: relabelling the items by {} changes the ops from {:?} to {:?}",
                        alg_name(alg),
                        $name,
                        base,
                        got
                    ));
                }
            }};
        }
        relabel!("x -> x+1000 (u32)", |&x: &u8| x as u32 + 1000);
        relabel!("x -> 7919x+13 (u64)", |&x: &u8| 7919u64 * x as u64 + 13);
        relabel!("x -> x*x+1 (u16)", |&x: &u8| (x as u16) * (x as u16) + 1);
        relabel!("x -> u64::MAX - 255 + x", |&x: &u8| u64::MAX - 255 + x as u64);
        relabel!("x -> zero-padded String", |&x: &u8| format!("{:05}", x));
        relabel!("x -> (x, 'k') tuple", |&x: &u8| (x, 'k'));
        relabel!("x -> -100 + x (i8 range)", |&x: &u8| -100i16 + x as i16);
        // old and new relabelled into DIFFERENT element types (new: PartialEq<old>) whose Hash
        // impls feed different bytes for equal items
        {
            use crate::instr::{Hi, Lo};
            let o: Vec<Lo> = old.iter().map(|&x| Lo(x as u32 + 7)).collect();
            let nn: Vec<Hi> = new.iter().map(|&x| Hi(x as u64 + 7)).collect();
            let got = subject(|| similar::capture_diff(alg, &o[..], 0..o.len(), &nn[..], 0..nn.len()))
                .map_err(|p| format!("heterogeneous element types: panic: {}", p))?;
            n += 1;
            if got != base {
                return Err(format!(
                    "{}: relabelling old into Lo(u32) and new into Hi(u64) (equal items, different hashes across the sides) changes the ops from {:?} to {:?}",
                    alg_name(alg),
                    base,
                    got
                ));
            }
        }
    }
    Ok((old != new && !old.is_empty() && !new.is_empty(), n, fp.0))
}

// ---- call histories ---------------------------------------------------------------------

pub fn check_history(a_old: &[u8], a_new: &[u8], b_old: &[u8], b_new: &[u8]) -> Result<u64, String> {
    let mut fp = Fp::new();
    for &alg_b in ALGS.iter() {
        let alone = subject(|| cap(alg_b, b_old, b_new)).map_err(|p| format!("panic: {}", p))?;
        fp.add(ops_fp(&alone));
        for &alg_a in ALGS.iter() {
            let after = subject(|| {
                let _ = cap(alg_a, a_old, a_new);
                cap(alg_b, b_old, b_new)
            })
            .map_err(|p| format!("panic: {}", p))?;
            if after != alone {
                return Err(format!(
                    "{} on {:?}/{:?} gives {:?} after a {} diff of {:?}/{:?} on the same thread, but {:?} on its own",
                    alg_name(alg_b), b_old, b_new, after, alg_name(alg_a), a_old, a_new, alone
                ));
            }
        }
        // repeated call
        let again = subject(|| cap(alg_b, b_old, b_new)).map_err(|p| format!("panic: {}", p))?;
        if again != alone {
            return Err(format!(
                "{} on {:?}/{:?}: two calls give {:?} and {:?}",
                alg_name(alg_b), b_old, b_new, alone, again
            ));
        }
    }
    Ok(fp.0)
}

// ---- call histories through the text API, with the input buffers REUSED between the calls -----
// (a cache keyed by address/length, or scratch state kept between calls, shows up here)

fn text_api_observation(old: &str, new: &str) -> (Vec<DiffOp>, String, Vec<String>, Vec<String>) {
    let d = TextDiff::from_lines(old, new);
    let ops = d.ops().to_vec();
    let udiff = d.unified_diff().context_radius(1).to_string();
    let inline: Vec<String> = d
        .ops()
        .iter()
        .flat_map(|op| d.iter_inline_changes_deadline(op, None))
        .map(|c| format!("{:?}{:?}{:?}{:?}", c.tag(), c.old_index(), c.new_index(), c.values()))
        .collect();
    let words: Vec<&str> = old.split_whitespace().collect();
    let close: Vec<String> = similar::get_close_matches(new.trim(), &words, 2, 0.3)
        .into_iter()
        .map(|s| s.to_string())
        .collect();
    (ops, udiff, inline, close)
}

pub fn check_text_history(a_old: &str, a_new: &str, b_old: &str, b_new: &str) -> Result<u64, String> {
    let alone = subject(|| text_api_observation(b_old, b_new)).map_err(|p| format!("panic: {}", p))?;
    let after = subject(|| {
        // same two allocations hold first A's then B's text
        let mut bo = String::with_capacity(64);
        let mut bn = String::with_capacity(64);
        bo.push_str(a_old);
        bn.push_str(a_new);
        let (p1, p2) = (bo.as_ptr(), bn.as_ptr());
        let _ = text_api_observation(&bo, &bn);
        bo.clear();
        bn.clear();
        bo.push_str(b_old);
        bn.push_str(b_new);
        debug_assert!(bo.as_ptr() == p1 && bn.as_ptr() == p2);
        text_api_observation(&bo, &bn)
    })
    .map_err(|p| format!("panic: {}", p))?;
    // one TextDiffConfig object used for A and then for B (held in the very buffers that held A,
    // three constructors in a row on the same texts) must behave like a fresh one per call
    for &alg in ALGS.iter() {
        type Obs = Vec<(Vec<DiffOp>, Vec<Vec<u8>>, Vec<Vec<u8>>)>;
        fn obs<'a>(d: &TextDiff<'a, 'a, '_, str>) -> (Vec<DiffOp>, Vec<Vec<u8>>, Vec<Vec<u8>>) {
            (
                d.ops().to_vec(),
                d.old_slices().iter().map(|t| t.as_bytes().to_vec()).collect(),
                d.new_slices().iter().map(|t| t.as_bytes().to_vec()).collect(),
            )
        }
        let fresh: Obs = subject(|| {
            let cfg = || {
                let mut c = TextDiff::configure();
                c.algorithm(alg).timeout(std::time::Duration::from_secs(3600));
                c
            };
            vec![
                obs(&cfg().diff_lines(b_old, b_new)),
                obs(&cfg().diff_words(b_old, b_new)),
                obs(&cfg().diff_chars(b_old, b_new)),
            ]
        })
        .map_err(|p| format!("panic: {}", p))?;
        let reused: Obs = subject(|| {
            let mut c = TextDiff::configure();
            c.algorithm(alg).timeout(std::time::Duration::from_secs(3600));
            let mut bo = String::with_capacity(64);
            let mut bn = String::with_capacity(64);
            bo.push_str(a_old);
            bn.push_str(a_new);
            let _ = c.diff_lines(&bo, &bn).ops().len();
            let _ = c.diff_chars(&bn, &bo).ops().len();
            bo.clear();
            bn.clear();
            bo.push_str(b_old);
            bn.push_str(b_new);
            vec![obs(&c.diff_lines(&bo, &bn)), obs(&c.diff_words(&bo, &bn)), obs(&c.diff_chars(&bo, &bn))]
        })
        .map_err(|p| format!("panic: {}", p))?;
        if fresh != reused {
            return Err(format!(
                "a TextDiffConfig ({}) already used for {:?}/{:?} gives (ops, old tokens, new tokens) {:?} for diff_lines / diff_words / diff_chars of {:?}/{:?} held in the same buffers; a fresh configuration per call gives {:?}",
                alg_name(alg), a_old, a_new, reused, b_old, b_new, fresh
            ));
        }
    }
    if after != alone {
        return Err(format!(
            "text API on {:?}/{:?} gives {:?} on its own, but {:?} after the same calls on {:?}/{:?} held in the same buffers",
            b_old, b_new, alone, after, a_old, a_new
        ));
    }
    Ok(ops_fp(&alone.0) ^ alone.1.len() as u64)
}

// ---- str vs bytes -------------------------------------------------------------------------

pub fn check_str_bytes(old: &str, new: &str) -> Result<(bool, u64, u64), String> {
    let mut fp = Fp::new();
    let mut n = 0;
    let mut any = false;
    for &alg in ALGS.iter() {
        for t in 0..3 {
            let r = subject(|| {
                let mut c = TextDiff::configure();
                c.algorithm(alg);
                let (s, b) = match t {
                    0 => (
                        c.diff_lines(old, new).ops().to_vec(),
                        c.diff_lines(old.as_bytes(), new.as_bytes()).ops().to_vec(),
                    ),
                    1 => (
                        c.diff_words(old, new).ops().to_vec(),
                        c.diff_words(old.as_bytes(), new.as_bytes()).ops().to_vec(),
                    ),
                    _ => (
                        c.diff_chars(old, new).ops().to_vec(),
                        c.diff_chars(old.as_bytes(), new.as_bytes()).ops().to_vec(),
                    ),
                };
                (s, b)
            })
            .map_err(|p| format!("panic: {}", p))?;
            n += 1;
            if r.0 != r.1 {
                return Err(format!(
                    "{} {}: str ops {:?} differ from [u8] ops {:?}",
                    ["lines", "words", "chars"][t],
                    alg_name(alg),
                    r.0,
                    r.1
                ));
            }
            any |= r.0.len() >= 2;
            fp.add(ops_fp(&r.0));
        }
    }
    Ok((any, n, fp.0))
}

// ---- free-running threads (supplementary, labelled) --------------------------------------------

fn free_running(space: &PairSpace, threads: usize) -> Result<(u64, u64), String> {
    // armed reference
    let mut inputs: Vec<(Vec<u8>, Vec<u8>)> = vec![];
    for shard in (0..space.nshards()).step_by(7) {
        space.for_each(shard, |o, n| {
            if inputs.len() < 40_000 && (o.len() + n.len()) % 3 == 0 {
                inputs.push((o.to_vec(), n.to_vec()));
            }
            true
        });
    }
    similar::verif::set_hash_seed(Some(0));
    let reference: Vec<Vec<DiffOp>> = inputs
        .iter()
        .map(|(o, n)| cap(Algorithm::Patience, o, n))
        .collect();
    let bad = std::sync::Mutex::new(None::<String>);
    std::thread::scope(|s| {
        for t in 0..threads {
            let inputs = &inputs;
            let reference = &reference;
            let bad = &bad;
            s.spawn(move || {
                // seam unarmed: every map gets a fresh random seed, like RandomState
                similar::verif::set_hash_seed(None);
                similar::verif::set_scramble(None);
                for (i, (o, n)) in inputs.iter().enumerate() {
                    // different threads walk the inputs in different rotations
                    let j = (i + t * 977) % inputs.len();
                    let (o, n) = if t % 2 == 0 { (o, n) } else { (&inputs[j].0, &inputs[j].1) };
                    let want = if t % 2 == 0 { &reference[i] } else { &reference[j] };
                    let got = cap(Algorithm::Patience, o, n);
                    if &got != want {
                        *bad.lock().unwrap() = Some(format!(
                            "thread {} with a random hasher seed: Patience on {:?}/{:?} gives {:?}, reference {:?}",
                            t, o, n, got, want
                        ));
                        return;
                    }
                }
            });
        }
    });
    crate::instr::disarm_all();
    match bad.into_inner().unwrap() {
        Some(e) => Err(e),
        None => Ok((inputs.len() as u64, threads as u64)),
    }
}

fn source_scan() -> Vec<String> {
    // not a verdict: a warning when the structural argument (no shared mutable state) may no
    // longer hold
    let mut hits = vec![];
    fn walk(dir: &std::path::Path, hits: &mut Vec<String>) {
        if let Ok(rd) = std::fs::read_dir(dir) {
            for e in rd.flatten() {
                let p = e.path();
                if p.is_dir() {
                    walk(&p, hits);
                } else if p.extension().map_or(false, |x| x == "rs")
                    && p.file_name().map_or(true, |n| n != "verif.rs")
                {
                    if let Ok(s) = std::fs::read_to_string(&p) {
                        for (i, line) in s.lines().enumerate() {
                            let l = line.trim_start();
                            if l.starts_with("//") {
                                continue;
                            }
                            if l.contains("static mut")
                                || l.contains("thread_local!")
                                || l.contains("unsafe ")
                                || l.contains("lazy_static")
                                || l.contains("OnceLock")
                                || l.contains("OnceCell")
                                || (l.starts_with("static ") || l.starts_with("pub static "))
                            {
                                hits.push(format!("{}:{}: {}", p.display(), i + 1, l));
                            }
                        }
                    }
                }
            }
        }
    }
    walk(std::path::Path::new("/repo/src"), &mut hits);
    hits
}

pub fn run(cfg: &RunCfg) -> CheckReport {
    let mut rep = CheckReport::new(
        "exploration",
        "part 'seeds': every pair of the listed scopes x S hasher seeds (seam H3: Patience ops, the > 100-token text-diff path, IdentifyDistinct ids) x EVERY permutation of the uniqueness map's iteration order when <= 6 items are unique (rotations x reversal above); non-trivial: >= 2 unique items. part 'relabel': every pair x 3 algorithms x 7 order-preserving injective relabellings into other types/values/hashes plus one relabelling of old and new into two different element types (new: PartialEq<old>) that hash equal items differently. part 'history': every ordered pair of inputs (A,B) from a small scope x 3x3 algorithms: B after A on one thread vs B alone, plus repeated call. part 'history-text': the same through the text API (line diff, unified diff, inline changes, get_close_matches) with B's texts written into the very buffers that held A's texts. part 'str-bytes': every text pair of the C04 'valid' space, lines/words/chars x 3 algorithms, str ops vs [u8] ops. Supplementary (free-running, not exhaustive, labelled): 16 OS threads with real random hasher seeds against the armed reference. Cases distinct by construction within a part.",
    );
    rep.assume("no shared mutable state / synchronisation in the crate (source scan reported under 'shared_state_scan'; a non-empty scan is a WARNING, not a verdict): thread interleavings cannot influence a result, so 'schedules' reduces to (hasher seed, iteration order, call history)");
    rep.assume("H3 seams cover every HashMap built on the diff path (unique(), IdentifyDistinct)");
    let scan = source_scan();
    if !scan.is_empty() {
        eprintln!("WARNING: possible shared state in /repo/src (not a verdict):");
        for h in &scan {
            eprintln!("  {}", h);
        }
    }
    rep.extra.insert("shared_state_scan".into(), json!(scan));

    let seeds = cfg.tier.pick(16u64, 64u64);
    let space = PairSpace::new(match cfg.tier {
        Tier::Quick => vec![Scope::P { k: 3, n: 5 }, Scope::R { l: 8 }],
        Tier::Thorough => vec![Scope::P { k: 3, n: 6 }, Scope::P { k: 4, n: 5 }, Scope::R { l: 10 }],
    });
    let ex = explore(cfg, space.nshards(), |shard, acc| {
        space.for_each(shard, |old, new| {
            match check_seeds(old, new, seeds) {
                Ok((nt, runs, fp)) => {
                    if acc.want_sample() {
                        acc.sample(json!({"old": old, "new": new, "seed_and_order_runs": runs}));
                    }
                    acc.count("runs", runs);
                    acc.ok(nt, runs, fp);
                }
                Err(e) => acc.violation(|| (json!({"part": "seeds", "old": old, "new": new, "seeds": seeds}), e)),
            }
            !acc.stop()
        });
    });
    rep.part("seeds", json!({"scopes": space.describe(), "seeds": seeds, "orders": "all permutations up to 6 unique items"}), ex);
    if rep.has_violation() {
        return rep;
    }
    // the same on the enumerated large inputs (incl. > 1000 unique items per side)
    super::large::run_part(cfg, &mut rep, &[Algorithm::Patience], &|_| usize::MAX, check_large);
    if rep.has_violation() {
        return rep;
    }
    {
        let wide = super::large::wide();
        let ex = explore(cfg, wide.len(), |shard, acc| {
            let inp = &wide[shard];
            match check_large(Algorithm::Patience, inp) {
                Ok((nt, tr, fp)) => {
                    acc.sample(super::large::case_json(Algorithm::Patience, inp, cfg.seed));
                    acc.ok(nt, tr, fp);
                }
                Err(e) => acc.violation(|| (super::large::case_json(Algorithm::Patience, inp, cfg.seed), format!("{}: {}", inp.name, e))),
            }
        });
        rep.part(
            "more-than-2^16-distinct-lines",
            json!({"inputs": wide.iter().map(|i| i.name.clone()).collect::<Vec<_>>(), "oracle": "seeds / orders / relabelling as in the large part; line diff (interned ids) == diff of the items as integers, Myers and Patience", "kind": "enumerated family, not exhaustive"}),
            ex,
        );
        if rep.has_violation() {
            return rep;
        }
    }

    let rspace = PairSpace::new(match cfg.tier {
        Tier::Quick => vec![Scope::P { k: 3, n: 5 }, Scope::R { l: 8 }],
        Tier::Thorough => vec![Scope::P { k: 3, n: 6 }, Scope::P { k: 4, n: 5 }, Scope::R { l: 10 }],
    });
    let ex = explore(cfg, rspace.nshards(), |shard, acc| {
        rspace.for_each(shard, |old, new| {
            match check_relabel(old, new) {
                Ok((nt, n, fp)) => {
                    if acc.want_sample() {
                        acc.sample(json!({"old": old, "new": new}));
                    }
                    acc.ok(nt, n, fp);
                }
                Err(e) => acc.violation(|| (json!({"part": "relabel", "old": old, "new": new}), e)),
            }
            !acc.stop()
        });
    });
    rep.part("relabel", json!({"scopes": rspace.describe(), "relabellings": "7 same-type maps + 1 heterogeneous pair of element types (old Lo(u32), new Hi(u64))"}), ex);
    if rep.has_violation() {
        return rep;
    }

    let hs = seqs(2, cfg.tier.pick(3, 4));
    let mut hp: Vec<(Vec<u8>, Vec<u8>)> = vec![];
    for a in &hs {
        for b in &hs {
            hp.push((a.clone(), b.clone()));
        }
    }
    let ex = explore(cfg, hp.len(), |shard, acc| {
        let (ao, an) = &hp[shard];
        for (bo, bn) in &hp {
            match check_history(ao, an, bo, bn) {
                Ok(fp) => {
                    if acc.want_sample() {
                        acc.sample(json!({"first": [ao, an], "then": [bo, bn]}));
                    }
                    acc.ok(ao != an && bo != bn, 12, fp);
                }
                Err(e) => acc.violation(|| {
                    (
                        json!({"part": "history", "a_old": ao, "a_new": an, "old": bo, "new": bn}),
                        e,
                    )
                }),
            }
            if acc.stop() {
                return;
            }
        }
    });
    rep.part("history", json!({"inputs": format!("P(2,{})", cfg.tier.pick(3, 4)), "histories": "every ordered pair of inputs x 3x3 algorithms"}), ex);
    if rep.has_violation() {
        return rep;
    }

    // histories through the text API with reused buffers
    let hts = TextSpace::new(&[b"a", b"b", b"\n", b" "], cfg.tier.pick(2, 3));
    let mut htp: Vec<(String, String)> = vec![];
    for a in &hts.texts {
        for b in &hts.texts {
            htp.push((String::from_utf8(a.clone()).unwrap(), String::from_utf8(b.clone()).unwrap()));
        }
    }
    let ex = explore(cfg, htp.len(), |shard, acc| {
        let (ao, an) = &htp[shard];
        for (bo, bn) in &htp {
            match check_text_history(ao, an, bo, bn) {
                Ok(fp) => {
                    if acc.want_sample() {
                        acc.sample(json!({"first": [ao, an], "then": [bo, bn]}));
                    }
                    acc.ok(ao != an && bo != bn, 8, fp);
                }
                Err(e) => acc.violation(|| {
                    (
                        json!({"part": "history-text", "a_old_text": ao, "a_new_text": an, "old_text": bo, "new_text": bn}),
                        e,
                    )
                }),
            }
            if acc.stop() {
                return;
            }
        }
    });
    rep.part("history-text", json!({"texts": hts.describe(), "api": "TextDiff::from_lines ops + unified diff + inline changes + get_close_matches, input buffers reused between the two calls"}), ex);
    if rep.has_violation() {
        return rep;
    }

    let ts = TextSpace::new(&LETTERS_VALID[..cfg.tier.pick(7, 9)], cfg.tier.pick(3, 4));
    let ex = explore(cfg, ts.texts.len(), |shard, acc| {
        let old = std::str::from_utf8(&ts.texts[shard]).unwrap();
        for nb in &ts.texts {
            let new = std::str::from_utf8(nb).unwrap();
            match check_str_bytes(old, new) {
                Ok((nt, n, fp)) => {
                    if acc.want_sample() {
                        acc.sample(json!({"old": old, "new": new}));
                    }
                    acc.ok(nt, n, fp);
                }
                Err(e) => acc.violation(|| (json!({"part": "str-bytes", "old_text": old, "new_text": new}), e)),
            }
            if acc.stop() {
                return;
            }
        }
    });
    rep.part("str-bytes", ts.describe(), ex);
    if rep.has_violation() {
        return rep;
    }
    // str vs bytes on long texts (block / chunk boundaries, > 100 tokens) and on the rich atoms
    let mut lt: Vec<(String, String)> = super::richtext::long_pairs(&super::large::all(cfg.tier, cfg.seed), cfg.tier.pick(130, 300))
        .into_iter()
        .map(|(_, a, b)| (a, b))
        .collect();
    let valid_atoms: Vec<String> = super::richtext::atoms()
        .into_iter()
        .filter_map(|a| String::from_utf8(a).ok())
        .collect();
    for a in &valid_atoms {
        for b in valid_atoms.iter().step_by(5) {
            lt.push((format!("x {} y\n", a), format!("x {} y\n{}", b, a)));
        }
    }
    let ex = explore(cfg, lt.len(), |shard, acc| {
        let (old, new) = &lt[shard];
        match check_str_bytes(old, new) {
            Ok((nt, n, fp)) => {
                if shard % 101 == 0 {
                    acc.sample(json!({"old_bytes": old.len(), "new_bytes": new.len()}));
                }
                acc.ok(nt, n, fp);
            }
            Err(e) => acc.violation(|| (json!({"part": "str-bytes", "old_text": old, "new_text": new}), e)),
        }
    });
    rep.part("str-bytes-long-and-rich", json!({"pairs": lt.len(), "note": "enumerated family"}), ex);
    if rep.has_violation() {
        return rep;
    }

    // supplementary free-running pass
    match free_running(&space, 16) {
        Ok((inputs, threads)) => {
            rep.extra.insert(
                "supplementary_free_running_threads".into(),
                json!({"inputs": inputs, "threads": threads, "note": "sampling of OS schedules with real random hasher seeds; not part of the exhaustive claim"}),
            );
        }
        Err(e) => {
            let mut acc = Acc::default();
            acc.violation(|| (json!({"part": "free-running"}), e));
            rep.part("free-running", json!({}), Explored { acc, shards_total: 1, shards_done: 0, capped: false, wall_s: 0.0 });
        }
    }
    rep
}

pub fn replay(case: &Value) -> Result<String, String> {
    if let Some(r) = super::large::resolve(case) {
        let (alg, inp) = r?;
        return check_large(alg, &inp).map(|o| format!("holds; {} runs", o.1));
    }
    match case.get("part").and_then(|x| x.as_str()) {
        Some("seeds") => {
            let old = parse_seq(case, "old")?;
            let new = parse_seq(case, "new")?;
            let seeds = parse_u64(case, "seeds")?;
            check_seeds(&old, &new, seeds).map(|r| format!("holds; {} runs", r.1))
        }
        Some("relabel") => {
            let old = parse_seq(case, "old")?;
            let new = parse_seq(case, "new")?;
            check_relabel(&old, &new).map(|r| format!("holds; {} relabelled runs", r.1))
        }
        Some("history") => {
            let ao = parse_seq(case, "a_old")?;
            let an = parse_seq(case, "a_new")?;
            let old = parse_seq(case, "old")?;
            let new = parse_seq(case, "new")?;
            check_history(&ao, &an, &old, &new).map(|f| format!("holds; fingerprint {:x}", f))
        }
        Some("history-text") => {
            let ao = parse_str(case, "a_old_text")?;
            let an = parse_str(case, "a_new_text")?;
            let old = parse_str(case, "old_text")?;
            let new = parse_str(case, "new_text")?;
            check_text_history(ao, an, old, new).map(|f| format!("holds; fingerprint {:x}", f))
        }
        Some("str-bytes") => {
            let old = parse_str(case, "old_text")?;
            let new = parse_str(case, "new_text")?;
            check_str_bytes(old, new).map(|r| format!("holds; {} diffs", r.1))
        }
        _ => Err("free-running part is not replayable (supplementary, uncontrolled schedules)".into()),
    }
}
