pub mod common;
pub mod c01;

use crate::engine::{CheckReport, RunCfg};
use serde_json::Value;

pub struct PropEntry {
    pub id: &'static str,
    pub run: fn(&RunCfg) -> CheckReport,
    pub replay: fn(&Value) -> Result<String, String>,
}

pub fn registry() -> Vec<PropEntry> {
    vec![
        PropEntry { id: "C01", run: c01::run, replay: c01::replay },
    ]
}
