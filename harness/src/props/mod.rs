pub mod common;
pub mod large;
pub mod richtext;
pub mod c01;
pub mod cap;
pub mod text;
pub mod c05;
pub mod c06;
pub mod c07;
pub mod c08;
pub mod c10;
pub mod c12;
pub mod c13;
pub mod c14;
pub mod c15;
pub mod c16;
pub mod c18;
pub mod c19;
pub mod c20;

use crate::engine::{CheckReport, RunCfg};
use serde_json::Value;

pub struct PropEntry {
    pub id: &'static str,
    pub run: fn(&RunCfg) -> CheckReport,
    pub replay: fn(&Value) -> Result<String, String>,
}

pub fn registry() -> Vec<PropEntry> {
    vec![
        PropEntry { id: "C01", run: c01::run, replay: c01::replay },
        PropEntry { id: "C02", run: cap::c02_run, replay: cap::c02_replay },
        PropEntry { id: "C03", run: cap::c03_run, replay: cap::c03_replay },
        PropEntry { id: "C04", run: text::c04_run, replay: text::c04_replay },
        PropEntry { id: "C05", run: c05::run, replay: c05::replay },
        PropEntry { id: "C06", run: c06::run, replay: c06::replay },
        PropEntry { id: "C07", run: c07::run, replay: c07::replay },
        PropEntry { id: "C08", run: c08::run, replay: c08::replay },
        PropEntry { id: "C09", run: cap::c09_run, replay: cap::c09_replay },
        PropEntry { id: "C10", run: c10::run, replay: c10::replay },
        PropEntry { id: "C11", run: cap::c11_run, replay: cap::c11_replay },
        PropEntry { id: "C12", run: c12::run, replay: c12::replay },
        PropEntry { id: "C13", run: c13::run, replay: c13::replay },
        PropEntry { id: "C14", run: c14::run, replay: c14::replay },
        PropEntry { id: "C15", run: c15::run, replay: c15::replay },
        PropEntry { id: "C16", run: c16::run, replay: c16::replay },
        PropEntry { id: "C17", run: text::c17_run, replay: text::c17_replay },
        PropEntry { id: "C18", run: c18::run, replay: c18::replay },
        PropEntry { id: "C19", run: c19::run, replay: c19::replay },
        PropEntry { id: "C20", run: c20::run, replay: c20::replay },
    ]
}
