//! C14 — a text diff is the sequence diff of its tokens at every size and config; the integer
//! mapping (IdentifyDistinct) is an equality-preserving bijection that keeps the ranges.

use super::common::*;
use super::text::TOKENIZERS;
use crate::engine::*;
use crate::instr::{Ch, Ci, CoarseHash, Win};
use crate::oracles::*;
use crate::spaces::*;
use serde_json::{json, Value};
use similar::algorithms::IdentifyDistinct;
use similar::{Algorithm, DiffableStr, TextDiff};

pub const PADS: [&str; 9] = [
    "none",
    "common prefix of 101 equal symbols",
    "common suffix of 101 distinct symbols",
    "old only: 101 extra symbols appended",
    "new only: 101 extra symbols prepended",
    "different junk of 101 symbols on both sides",
    "exactly 100 vs 101 tokens",
    "exactly 100 vs 100 tokens",
    "exactly 101 vs 100 tokens",
];

fn sym(x: u32) -> char {
    // core symbols a,b,c…; padding symbols from a block of distinct letters
    if x < 16 {
        (b'a' + x as u8) as char
    } else {
        char::from_u32(0x100 + x).unwrap()
    }
}

/// symbol sequences for (core pair, padding mode)
pub fn padded(old: &[u8], new: &[u8], pad: usize) -> (Vec<u32>, Vec<u32>) {
    let o: Vec<u32> = old.iter().map(|&x| x as u32).collect();
    let n: Vec<u32> = new.iter().map(|&x| x as u32).collect();
    let distinct = |base: u32, k: usize| -> Vec<u32> { (0..k as u32).map(|i| 1000 + base + i).collect() };
    match pad {
        0 => (o, n),
        1 => {
            let p = vec![15u32; 101];
            ([p.clone(), o].concat(), [p, n].concat())
        }
        2 => {
            let p = distinct(0, 101);
            ([o, p.clone()].concat(), [n, p].concat())
        }
        3 => ([o, distinct(200, 101)].concat(), n),
        4 => (o, [distinct(400, 101), n].concat()),
        5 => ([o, distinct(600, 101)].concat(), [n, distinct(800, 101)].concat()),
        6 | 7 | 8 => {
            let (wo, wn) = match pad {
                6 => (100, 101),
                7 => (100, 100),
                _ => (101, 100),
            };
            // pad in the middle of the common run so the core pair stays at both ends
            let po = vec![14u32; wo - o.len()];
            let pn = vec![14u32; wn - n.len()];
            ([po, o].concat(), [pn, n].concat())
        }
        _ => unreachable!(),
    }
}

/// text whose tokenization by tokenizer `t` has one token (lines, chars, graphemes) or two
/// tokens (words, unicode words) per symbol
pub fn text_for(t: usize, syms: &[u32]) -> String {
    let mut s = String::new();
    for (i, &x) in syms.iter().enumerate() {
        match t {
            0 => {
                s.push(sym(x));
                s.push('\n');
            }
            1 | 3 => {
                if i > 0 {
                    s.push(' ');
                }
                s.push(sym(x));
            }
            _ => s.push(sym(x)),
        }
    }
    s
}

fn check_config<T: DiffableStr + ?Sized>(
    t: usize,
    alg: Algorithm,
    nl: Option<bool>,
    old: &T,
    new: &T,
) -> Result<(usize, usize, u64), String> {
    let mut cfg = TextDiff::configure();
    cfg.algorithm(alg);
    if let Some(b) = nl {
        cfg.newline_terminated(b);
    }
    // the same configuration reached by another setter sequence: every setter called twice
    // (the last value counts), in the opposite order, and the config used once before
    let other_alg = if alg == Algorithm::Myers { Algorithm::Patience } else { Algorithm::Myers };
    let mut cfg2 = TextDiff::configure();
    if let Some(b) = nl {
        cfg2.newline_terminated(!b);
    }
    cfg2.algorithm(other_alg);
    let _ = cfg2.diff_chars("ab", "ba");
    if let Some(b) = nl {
        cfg2.newline_terminated(b);
    }
    cfg2.algorithm(alg);
    let slices_o = old.tokenize_lines_and_newlines();
    let slices_n = new.tokenize_lines_and_newlines();
    let diff = match t {
        0 => cfg.diff_lines(old, new),
        1 => cfg.diff_words(old, new),
        2 => cfg.diff_chars(old, new),
        #[cfg(feature = "unicode")]
        3 => cfg.diff_unicode_words(old, new),
        #[cfg(feature = "unicode")]
        4 => cfg.diff_graphemes(old, new),
        _ => cfg.diff_slices(&slices_o, &slices_n),
    };
    if diff.algorithm() != alg {
        return Err(format!("algorithm() reports {:?}, configured {:?}", diff.algorithm(), alg));
    }
    let want_nl = nl.unwrap_or(t == 0);
    if diff.newline_terminated() != want_nl {
        return Err(format!(
            "newline_terminated() is {} (override {:?}, constructor {})",
            diff.newline_terminated(),
            nl,
            TOKENIZERS[t]
        ));
    }
    {
        let diff2 = match t {
            0 => cfg2.diff_lines(old, new),
            1 => cfg2.diff_words(old, new),
            2 => cfg2.diff_chars(old, new),
            #[cfg(feature = "unicode")]
            3 => cfg2.diff_unicode_words(old, new),
            #[cfg(feature = "unicode")]
            4 => cfg2.diff_graphemes(old, new),
            _ => cfg2.diff_slices(&slices_o, &slices_n),
        };
        // ... and a clone of that configuration
        let cfg3 = cfg2.clone();
        let diff3 = match t {
            0 => cfg3.diff_lines(old, new),
            1 => cfg3.diff_words(old, new),
            2 => cfg3.diff_chars(old, new),
            #[cfg(feature = "unicode")]
            3 => cfg3.diff_unicode_words(old, new),
            #[cfg(feature = "unicode")]
            4 => cfg3.diff_graphemes(old, new),
            _ => cfg3.diff_slices(&slices_o, &slices_n),
        };
        if diff3.algorithm() != alg || diff3.newline_terminated() != want_nl || diff3.ops() != diff.ops() {
            return Err(format!(
                "a CLONE of a config set to ({:?}, newline_terminated {:?}) gives algorithm {:?}, newline_terminated {}, ops {:?}; the original gives {:?}",
                alg,
                nl,
                diff3.algorithm(),
                diff3.newline_terminated(),
                diff3.ops(),
                diff.ops()
            ));
        }
        if diff2.algorithm() != alg || diff2.newline_terminated() != want_nl || diff2.ops() != diff.ops() {
            return Err(format!(
                "a config set to other values first, used once and then set to ({:?}, newline_terminated {:?}) gives algorithm {:?}, newline_terminated {}, ops {:?}; a fresh config gives {:?}",
                alg,
                nl,
                diff2.algorithm(),
                diff2.newline_terminated(),
                diff2.ops(),
                diff.ops()
            ));
        }
    }
    // the constructor shortcuts are the default configuration (Myers, no override)
    if alg == Algorithm::Myers && nl.is_none() {
        let short = match t {
            0 => TextDiff::from_lines(old, new),
            1 => TextDiff::from_words(old, new),
            2 => TextDiff::from_chars(old, new),
            #[cfg(feature = "unicode")]
            3 => TextDiff::from_unicode_words(old, new),
            #[cfg(feature = "unicode")]
            4 => TextDiff::from_graphemes(old, new),
            _ => TextDiff::from_slices(&slices_o, &slices_n),
        };
        if short.ops() != diff.ops() || short.algorithm() != alg || short.newline_terminated() != want_nl {
            return Err(format!(
                "TextDiff::from_* gives ops {:?} (algorithm {:?}, newline_terminated {}), the default configuration {:?}",
                short.ops(),
                short.algorithm(),
                short.newline_terminated(),
                diff.ops()
            ));
        }
    }
    let direct = similar::capture_diff_slices(alg, diff.old_slices(), diff.new_slices());
    if diff.ops() != &direct[..] {
        return Err(format!(
            "ops of the text diff ({} vs {} tokens) differ from capture_diff_slices on its token slices: {:?} vs {:?}",
            diff.old_slices().len(),
            diff.new_slices().len(),
            diff.ops(),
            direct
        ));
    }
    Ok((diff.old_slices().len(), diff.new_slices().len(), ops_fp(&direct)))
}

pub fn check_case(old: &[u8], new: &[u8], pad: usize, lcs_too: bool) -> Result<(bool, u64, u64), String> {
    let (so, sn) = padded(old, new, pad);
    let mut fp = Fp::new();
    let mut above = false;
    let mut below = false;
    let mut n = 0;
    for t in 0..6 {
        if !cfg!(feature = "unicode") && (t == 3 || t == 4) {
            continue;
        }
        // exact token counts only make sense with one token per symbol
        if pad >= 6 && (t == 1 || t == 3) {
            continue;
        }
        let a = text_for(t, &so);
        let b = text_for(t, &sn);
        for &alg in ALGS.iter() {
            if alg == Algorithm::Lcs && !lcs_too && pad != 0 {
                continue;
            }
            for nl in [None, Some(true), Some(false)] {
                let what = |e: String| {
                    format!(
                        "{} {} newline_terminated={:?} padding '{}': {}",
                        TOKENIZERS[t],
                        alg_name(alg),
                        nl,
                        PADS[pad],
                        e
                    )
                };
                let r = subject(|| check_config::<str>(t, alg, nl, &a, &b))
                    .map_err(|p| what(format!("str: panic: {}", p)))?
                    .map_err(|e| what(format!("str: {}", e)))?;
                if r.0 > 100 || r.1 > 100 {
                    above = true;
                } else {
                    below = true;
                }
                fp.add(r.2);
                n += 1;
                if nl.is_none() {
                    let r = subject(|| check_config::<[u8]>(t, alg, nl, a.as_bytes(), b.as_bytes()))
                        .map_err(|p| what(format!("[u8]: panic: {}", p)))?
                        .map_err(|e| what(format!("[u8]: {}", e)))?;
                    fp.add(r.2);
                    n += 1;
                    // a caller-side DiffableStr whose equality is not byte equality (ASCII case
                    // folded): every other ASCII letter of new is upper-cased, so tokens that
                    // are equal for the type differ in their bytes
                    let mut up = false;
                    let b_mixed: Vec<u8> = b
                        .bytes()
                        .map(|c| {
                            if c.is_ascii_lowercase() {
                                up = !up;
                                if up {
                                    return c.to_ascii_uppercase();
                                }
                            }
                            c
                        })
                        .collect();
                    let r = subject(|| check_config::<Ci>(t, alg, nl, Ci::new(a.as_bytes()), Ci::new(&b_mixed)))
                        .map_err(|p| what(format!("case-insensitive DiffableStr: panic: {}", p)))?
                        .map_err(|e| what(format!("case-insensitive DiffableStr: {}", e)))?;
                    fp.add(r.2);
                    n += 1;
                    // ... and one with byte-wise equality whose hash is only the token length
                    let r = subject(|| check_config::<Ch>(t, alg, nl, Ch::new(a.as_bytes()), Ch::new(b.as_bytes())))
                        .map_err(|p| what(format!("DiffableStr with a coarse hash: panic: {}", p)))?
                        .map_err(|e| what(format!("DiffableStr with a coarse hash (token length only): {}", e)))?;
                    fp.add(r.2);
                    n += 1;
                }
            }
        }
    }
    let _ = below;
    Ok((above, n, fp.0))
}

// ---- IdentifyDistinct -------------------------------------------------------------------

fn ids_check<Int>(old: &[u8], new: &[u8], po: usize, pn: usize, name: &str) -> Result<u64, String>
where
    Int: std::ops::Add<Output = Int> + From<u8> + Default + Copy + PartialEq + std::fmt::Debug,
{
    let fo = embed(old, po, 2, new);
    let fnw = embed(new, pn, 2, old);
    let or = po..po + old.len();
    let nr = pn..pn + new.len();
    let r = subject(|| {
        let wo = Win { data: &fo, lo: or.start, hi: or.end };
        let wn = Win { data: &fnw, lo: nr.start, hi: nr.end };
        let h = IdentifyDistinct::<Int>::new(&wo, or.clone(), &wn, nr.clone());
        let oi: Vec<Int> = or.clone().map(|i| h.old_lookup()[i]).collect();
        let ni: Vec<Int> = nr.clone().map(|i| h.new_lookup()[i]).collect();
        (h.old_range(), h.new_range(), oi, ni)
    })
    .map_err(|p| format!("IdentifyDistinct::<{}> on ranges old {:?} new {:?}: panic: {}", name, or, nr, p))?;
    let (gor, gnr, oi, ni) = r;
    if gor != or || gnr != nr {
        return Err(format!(
            "IdentifyDistinct::<{}>: ranges {:?}/{:?} returned for requested {:?}/{:?}",
            name, gor, gnr, or, nr
        ));
    }
    // the same items as a type whose (legal) hash is coarse: unequal items share hash values
    {
        let fo_c: Vec<CoarseHash> = fo.iter().map(|&x| CoarseHash(x)).collect();
        let fn_c: Vec<CoarseHash> = fnw.iter().map(|&x| CoarseHash(x)).collect();
        let (oc, nc) = subject(|| {
            let h = IdentifyDistinct::<Int>::new(&fo_c[..], or.clone(), &fn_c[..], nr.clone());
            let oc: Vec<Int> = or.clone().map(|i| h.old_lookup()[i]).collect();
            let nc: Vec<Int> = nr.clone().map(|i| h.new_lookup()[i]).collect();
            (oc, nc)
        })
        .map_err(|p| format!("IdentifyDistinct::<{}> over items with a coarse hash: panic: {}", name, p))?;
        let items: Vec<u8> = old.iter().chain(new.iter()).copied().collect();
        let ids: Vec<Int> = oc.iter().chain(nc.iter()).copied().collect();
        for i in 0..items.len() {
            for j in 0..items.len() {
                if (items[i] == items[j]) != (ids[i] == ids[j]) {
                    return Err(format!(
                        "IdentifyDistinct::<{}> over items whose hash is coarse (parity only), old={:?}[{:?}] new={:?}[{:?}]: items {} and {} (of old++new) are {} but their ids {:?} and {:?} are {}",
                        name, fo, or, fnw, nr, i, j,
                        if items[i] == items[j] { "equal" } else { "different" },
                        ids[i], ids[j],
                        if ids[i] == ids[j] { "equal" } else { "different" }
                    ));
                }
            }
        }
    }
    let items: Vec<u8> = old.iter().chain(new.iter()).copied().collect();
    let ids: Vec<Int> = oi.iter().chain(ni.iter()).copied().collect();
    for i in 0..items.len() {
        for j in 0..items.len() {
            if (items[i] == items[j]) != (ids[i] == ids[j]) {
                return Err(format!(
                    "IdentifyDistinct::<{}> on old={:?}[{:?}] new={:?}[{:?}]: items {} and {} (of old++new) are {} but their ids {:?} and {:?} are {}",
                    name, fo, or, fnw, nr, i, j,
                    if items[i] == items[j] { "equal" } else { "different" },
                    ids[i], ids[j],
                    if ids[i] == ids[j] { "equal" } else { "different" }
                ));
            }
        }
    }
    Ok(ids.len() as u64)
}

/// exactly as many distinct items as the id type has values: u8 with 256, u16 with 65536
/// distinct items (the type is wide enough: ids 0..=MAX), spread over both sides with repeats
pub fn check_ids_full() -> Result<u64, String> {
    fn one<Int>(distinct: u32, name: &str) -> Result<u64, String>
    where
        Int: std::ops::Add<Output = Int> + From<u8> + Default + Copy + PartialEq + std::fmt::Debug + std::hash::Hash + Eq,
    {
        let old: Vec<u32> = (0..distinct / 2).chain(0..7).collect();
        let new: Vec<u32> = (3..11).chain(distinct / 2..distinct).collect();
        let r = subject(|| {
            let h = IdentifyDistinct::<Int>::new(&old[..], 0..old.len(), &new[..], 0..new.len());
            let oi: Vec<Int> = (0..old.len()).map(|i| h.old_lookup()[i]).collect();
            let ni: Vec<Int> = (0..new.len()).map(|i| h.new_lookup()[i]).collect();
            (oi, ni)
        })
        .map_err(|p| format!("IdentifyDistinct::<{}> with exactly {} distinct items (the type has exactly that many values): panic: {}", name, distinct, p))?;
        let items: Vec<u32> = old.iter().chain(new.iter()).copied().collect();
        let ids: Vec<Int> = r.0.iter().chain(r.1.iter()).copied().collect();
        let mut by_item: std::collections::HashMap<u32, Int> = std::collections::HashMap::new();
        let mut by_id: std::collections::HashMap<Int, u32> = std::collections::HashMap::new();
        for (it, id) in items.iter().zip(ids.iter()) {
            if *by_item.entry(*it).or_insert(*id) != *id || *by_id.entry(*id).or_insert(*it) != *it {
                return Err(format!(
                    "IdentifyDistinct::<{}> with exactly {} distinct items: ids are not a bijection of the items (item {} / id {:?})",
                    name, distinct, it, id
                ));
            }
        }
        Ok(items.len() as u64)
    }
    Ok(one::<u8>(256, "u8")? + one::<u16>(65_536, "u16")? + one::<u16>(65_535, "u16")? + one::<u8>(255, "u8")?)
}

pub fn check_ids(old: &[u8], new: &[u8]) -> Result<u64, String> {
    let mut n = 0;
    for &(po, pn) in OFFSETS.iter() {
        n += ids_check::<u8>(old, new, po, pn, "u8")?;
        n += ids_check::<u16>(old, new, po, pn, "u16")?;
        n += ids_check::<u32>(old, new, po, pn, "u32")?;
        n += ids_check::<u64>(old, new, po, pn, "u64")?;
        n += ids_check::<usize>(old, new, po, pn, "usize")?;
        n += ids_check::<i32>(old, new, po, pn, "i32")?;
    }
    // empty ranges written with start > end (what trimming a common prefix and a common suffix
    // independently produces, e.g. 2..0): empty everywhere in the crate, so here too
    #[allow(clippy::reversed_empty_ranges)]
    for (or, nr) in [(2..0, 0..new.len()), (0..old.len(), 3..1), (old.len()..0, new.len()..0)] {
        if or.start <= or.end && nr.start <= nr.end {
            continue;
        }
        let r = subject(|| {
            let h = IdentifyDistinct::<u32>::new(old, or.clone(), new, nr.clone());
            (h.old_range(), h.new_range())
        })
        .map_err(|p| format!("IdentifyDistinct::<u32> on ranges old {:?} new {:?} (start > end means empty): panic: {}", or, nr, p))?;
        let want_o = if or.start > or.end { 0 } else { or.len() };
        let want_n = if nr.start > nr.end { 0 } else { nr.len() };
        if r.0.len() != want_o || r.1.len() != want_n || r.0.start != or.start || r.1.start != nr.start {
            return Err(format!(
                "IdentifyDistinct::<u32> on ranges old {:?} new {:?} returns ranges {:?} / {:?}",
                or, nr, r.0, r.1
            ));
        }
        n += 1;
    }
    Ok(n)
}

pub fn run(cfg: &RunCfg) -> CheckReport {
    let mut rep = CheckReport::new(
        "exploration",
        "part 'sizes': every core pair of the listed scope x 9 padding modes (token counts below, above and exactly at the > 100 switch on either side) x 6 constructors x 3 algorithms (LCS only unpadded on the larger cores: its table costs ~1 ms at 100x100) x newline_terminated override {unset, true, false} x {str, [u8]}; oracle: ops == capture_diff_slices(alg, old_slices, new_slices), algorithm() and newline_terminated() echoes. One case = (core pair, padding mode); non-trivial: some side has > 100 tokens. part 'ids': IdentifyDistinct for every pair of the listed scopes x 4 range offsets (window Index) x 6 integer types: ids equal <=> items equal within and across sides, ranges kept, lookups by absolute index; non-trivial: >= 2 distinct items.",
    );
    rep.assume("differential oracle: independent of tokenizer correctness (C06) and of algorithm correctness (C01-C03)");
    let core = PairSpace::new(vec![cfg.tier.pick(Scope::P { k: 3, n: 3 }, Scope::P { k: 3, n: 4 })]);
    let lcs_core = cfg.tier.pick(1usize, 2usize);
    let ex = explore(cfg, core.nshards() * PADS.len(), |shard, acc| {
        let pad = shard % PADS.len();
        core.for_each(shard / PADS.len(), |old, new| {
            let lcs_too = old.len() <= lcs_core && new.len() <= lcs_core;
            match check_case(old, new, pad, lcs_too) {
                Ok((above, n, fp)) => {
                    if acc.want_sample() {
                        acc.sample(json!({"old": old, "new": new, "padding": PADS[pad]}));
                    }
                    acc.count("text_diffs", n);
                    acc.ok(above, n, fp);
                }
                Err(e) => acc.violation(|| (json!({"old": old, "new": new, "pad": pad, "padding": PADS[pad]}), e)),
            }
            !acc.stop()
        });
    });
    rep.part("sizes", json!({"core": core.describe(), "paddings": PADS, "lcs_padded_core_max_len": lcs_core}), ex);
    if rep.has_violation() {
        return rep;
    }
    let space = PairSpace::new(vec![
        cfg.tier.pick(Scope::P { k: 3, n: 4 }, Scope::P { k: 3, n: 5 }),
        cfg.tier.pick(Scope::R { l: 8 }, Scope::R { l: 9 }),
    ]);
    let ex = explore(cfg, space.nshards(), |shard, acc| {
        space.for_each(shard, |old, new| {
            match check_ids(old, new) {
                Ok(n) => {
                    if acc.want_sample() {
                        acc.sample(json!({"old": old, "new": new}));
                    }
                    let mut d: Vec<u8> = old.iter().chain(new.iter()).copied().collect();
                    d.sort();
                    d.dedup();
                    let mut fp = Fp::new();
                    for &x in old.iter().chain(new.iter()) {
                        fp.add(x as u64);
                    }
                    acc.ok(d.len() >= 2, n, fp.0);
                }
                Err(e) => acc.violation(|| (json!({"ids": true, "old": old, "new": new}), e)),
            }
            !acc.stop()
        });
    });
    rep.part("ids", json!({"scopes": space.describe(), "int_types": ["u8", "u16", "u32", "u64", "usize", "i32"], "offsets": format!("{:?}", OFFSETS)}), ex);
    if !rep.has_violation() {
        let ex = explore(cfg, 1, |_, acc| match check_ids_full() {
            Ok(n) => {
                acc.sample(json!({"ids_exactly_full": ["u8 x 256", "u16 x 65536", "u16 x 65535", "u8 x 255"]}));
                acc.ok(true, n, n);
                acc.ok(true, n, n + 1);
            }
            Err(e) => acc.violation(|| (json!({"ids_full": true}), e)),
        });
        rep.part("ids-exactly-as-many-distinct-items-as-values", json!({"cases": ["u8 x 256", "u16 x 65536", "u16 x 65535", "u8 x 255"]}), ex);
    }
    if !rep.has_violation() {
        super::large::run_part(cfg, &mut rep, &ALGS, &|a| if a == Algorithm::Lcs { 300 } else { usize::MAX }, check_large);
    }
    if rep.has_violation() {
        return rep;
    }
    {
        let wide = super::large::wide();
        let mut work = vec![];
        for i in &wide {
            for &a in ALGS.iter() {
                if a != Algorithm::Lcs || super::large::lcs_affordable(i) {
                    work.push((a, i));
                }
            }
        }
        let ex = explore(cfg, work.len(), |shard, acc| {
            let (alg, inp) = work[shard];
            match check_large(alg, inp) {
                Ok((nt, tr, fp)) => {
                    acc.sample(super::large::case_json(alg, inp, cfg.seed));
                    acc.ok(nt, tr, fp);
                }
                Err(e) => acc.violation(|| (super::large::case_json(alg, inp, cfg.seed), format!("{}: {}", inp.name, e))),
            }
        });
        rep.part("huge-more-than-2^16-distinct-tokens", json!({"inputs": wide.iter().map(|i| i.name.clone()).collect::<Vec<_>>()}), ex);
        if rep.has_violation() {
            return rep;
        }
    }
    // long texts through every constructor: ops == direct diff of the token slices
    let pairs = super::richtext::long_pairs(&super::large::all(cfg.tier, cfg.seed), cfg.tier.pick(130, 300));
    let ex = explore(cfg, pairs.len(), |shard, acc| {
        let (name, old, new) = &pairs[shard];
        let mut fp = Fp::new();
        let mut n = 0;
        for t in 0..6 {
            if !cfg!(feature = "unicode") && (t == 3 || t == 4) {
                continue;
            }
            for &alg in ALGS.iter() {
                if alg == Algorithm::Lcs && old.len().max(new.len()) > 400 {
                    continue;
                }
                for nl in [None, Some(false)] {
                    let r = subject(|| check_config::<str>(t, alg, nl, old, new));
                    let r = match r {
                        Err(p) => Err(format!("panic: {}", p)),
                        Ok(x) => x,
                    };
                    match r {
                        Ok(x) => {
                            fp.add(x.2);
                            n += 1;
                        }
                        Err(e) => {
                            acc.violation(|| {
                                (
                                    json!({"long_text": true, "old_text": old, "new_text": new}),
                                    format!("{}: {} {} newline_terminated={:?}: {}", name, TOKENIZERS[t], alg_name(alg), nl, e),
                                )
                            });
                            return;
                        }
                    }
                }
            }
        }
        if shard % 97 == 0 {
            acc.sample(json!({"long_text_pair": name}));
        }
        acc.ok(true, n, fp.0);
    });
    rep.part("long-texts", json!({"pairs": pairs.len(), "note": "enumerated family: every constructor x algorithm on long texts (LCS up to 400 bytes)"}), ex);
    rep
}

/// text diff of string tokens vs direct diff of the token slices vs direct diff of the raw items
pub fn check_large(alg: Algorithm, inp: &super::large::LargeInput) -> Result<(bool, u64, u64), String> {
    let so: Vec<String> = inp.old.iter().map(|x| format!("{}\n", x)).collect();
    let sn: Vec<String> = inp.new.iter().map(|x| format!("{}\n", x)).collect();
    let ro: Vec<&str> = so.iter().map(|s| s.as_str()).collect();
    let rn: Vec<&str> = sn.iter().map(|s| s.as_str()).collect();
    let text_old: String = so.concat();
    let text_new: String = sn.concat();
    let r = subject(|| {
        let d = TextDiff::configure().algorithm(alg).diff_slices(&ro, &rn);
        let dl = TextDiff::configure().algorithm(alg).diff_lines(&text_old, &text_new);
        (
            d.ops().to_vec(),
            dl.ops().to_vec(),
            dl.newline_terminated(),
            dl.algorithm(),
            similar::capture_diff_slices(alg, &ro, &rn),
            similar::capture_diff_slices(alg, &inp.old, &inp.new),
        )
    })
    .map_err(|p| format!("panic: {}", p))?;
    let (text_ops, line_ops, nlt, got_alg, direct, raw) = r;
    if text_ops != direct {
        return Err(format!(
            "TextDiff::diff_slices ops ({} vs {} tokens) differ from capture_diff_slices on the same token slices",
            ro.len(),
            rn.len()
        ));
    }
    if line_ops != direct {
        return Err(format!(
            "TextDiff::diff_lines ops ({} vs {} lines) differ from capture_diff_slices on the line tokens",
            ro.len(),
            rn.len()
        ));
    }
    if !nlt || got_alg != alg {
        return Err("line diff lost its newline_terminated flag or its algorithm".into());
    }
    if raw != direct {
        return Err("diffing the string tokens and diffing the integer items they were printed from give different ops".into());
    }
    Ok((ro.len() > 100 || rn.len() > 100, direct.len() as u64, ops_fp(&direct)))
}

pub fn replay(case: &Value) -> Result<String, String> {
    if case.get("long_text").is_some() {
        let old = parse_str(case, "old_text")?;
        let new = parse_str(case, "new_text")?;
        for t in 0..6 {
            if !cfg!(feature = "unicode") && (t == 3 || t == 4) {
                continue;
            }
            for &alg in ALGS.iter() {
                if alg == Algorithm::Lcs && old.len().max(new.len()) > 400 {
                    continue;
                }
                for nl in [None, Some(false)] {
                    subject(|| check_config::<str>(t, alg, nl, old, new))
                        .map_err(|p| format!("panic: {}", p))?
                        .map_err(|e| format!("{} {}: {}", TOKENIZERS[t], alg_name(alg), e))?;
                }
            }
        }
        return Ok("holds".into());
    }
    if let Some(r) = super::large::resolve(case) {
        let (alg, inp) = r?;
        return check_large(alg, &inp).map(|o| format!("holds; fingerprint {:x}", o.2));
    }
    let old = parse_seq(case, "old")?;
    let new = parse_seq(case, "new")?;
    if case.get("ids_full").is_some() {
        return check_ids_full().map(|n| format!("holds; {} ids", n));
    }
    if case.get("ids").is_some() {
        return check_ids(&old, &new).map(|n| format!("holds; {} ids", n));
    }
    let pad = parse_u64(case, "pad")? as usize;
    check_case(&old, &new, pad, true).map(|r| format!("holds; {} diffs, fingerprint {:x}", r.1, r.2))
}
