//! C08 — hook protocol: finish once and last; a hook error aborts the diff unchanged.
//!
//! Fault enumeration: for every input, adapter stack and call index k of the success run the
//! harness's hook fails at its k-th call.

use super::common::*;
use crate::engine::*;
use crate::instr::{calls_to_string, Call, Rec, RecNoReplace, SharedRec, SharedRecNoReplace};
use crate::oracles::*;
use crate::spaces::*;
use serde_json::{json, Value};
use similar::algorithms::{Compact, DiffHook, NoFinishHook, Replace};
use similar::Algorithm;

pub const STACKS: [&str; 12] = [
    "bare hook",
    "Replace<hook>",
    "Compact<hook>",
    "Compact<Replace<hook>>",
    "Replace<hook without replace()>",
    "NoFinishHook<hook>",
    "&mut hook",
    "Replace<NoFinishHook<hook>>",
    "Compact<Replace<hook without replace()>>",
    "Replace<Replace<hook>>",
    "Compact<Replace<Replace<hook>>>",
    "captured ops replayed with apply_to_hook into Replace<hook>",
];

/// Runs one diff through adapter stack `stack` with the innermost hook failing at call `k`.
/// Returns (calls seen by the innermost hook, result of the diff).
fn run_stack(
    alg: Algorithm,
    stack: usize,
    old: &[u8],
    new: &[u8],
    k: Option<usize>,
) -> Result<(Vec<Call>, Result<(), usize>), String> {
    let (n, m) = (old.len(), new.len());
    subject(|| match stack {
        0 => {
            let mut h = Rec::failing(k);
            let r = raw_into(alg, 0, &mut h, old, 0..n, new, 0..m, None);
            (h.calls, r)
        }
        1 => {
            let mut h = Replace::new(Rec::failing(k));
            let r = raw_into(alg, 0, &mut h, old, 0..n, new, 0..m, None);
            (h.into_inner().calls, r)
        }
        2 => {
            let mut h = Compact::new(Rec::failing(k), old, new);
            let r = raw_into(alg, 0, &mut h, old, 0..n, new, 0..m, None);
            (h.into_inner().calls, r)
        }
        3 => {
            let mut h = Compact::new(Replace::new(Rec::failing(k)), old, new);
            let r = raw_into(alg, 0, &mut h, old, 0..n, new, 0..m, None);
            (h.into_inner().into_inner().calls, r)
        }
        4 => {
            let mut h = Replace::new(RecNoReplace::failing(k));
            let r = raw_into(alg, 0, &mut h, old, 0..n, new, 0..m, None);
            (h.into_inner().calls, r)
        }
        5 => {
            let mut h = NoFinishHook::new(Rec::failing(k));
            let r = raw_into(alg, 0, &mut h, old, 0..n, new, 0..m, None);
            (h.into_inner().calls, r)
        }
        6 => {
            let mut inner = Rec::failing(k);
            let r = {
                let mut h: &mut Rec = &mut inner;
                raw_into(alg, 0, &mut h, old, 0..n, new, 0..m, None)
            };
            (inner.calls, r)
        }
        7 => {
            let mut h = Replace::new(NoFinishHook::new(Rec::failing(k)));
            let r = raw_into(alg, 0, &mut h, old, 0..n, new, 0..m, None);
            (h.into_inner().into_inner().calls, r)
        }
        8 => {
            let mut h = Compact::new(Replace::new(RecNoReplace::failing(k)), old, new);
            let r = raw_into(alg, 0, &mut h, old, 0..n, new, 0..m, None);
            (h.into_inner().into_inner().calls, r)
        }
        // a Replace that is itself fed replace() calls: by a second Replace above it, or by ops
        // replayed with apply_to_hook
        9 => {
            let mut h = Replace::new(Replace::new(Rec::failing(k)));
            let r = raw_into(alg, 0, &mut h, old, 0..n, new, 0..m, None);
            (h.into_inner().into_inner().calls, r)
        }
        10 => {
            let mut h = Compact::new(Replace::new(Replace::new(Rec::failing(k))), old, new);
            let r = raw_into(alg, 0, &mut h, old, 0..n, new, 0..m, None);
            (h.into_inner().into_inner().into_inner().calls, r)
        }
        _ => {
            let ops = similar::capture_diff(alg, old, 0..n, new, 0..m);
            let mut h = Replace::new(Rec::failing(k));
            let mut r = Ok(());
            for op in &ops {
                r = op.apply_to_hook(&mut h);
                if r.is_err() {
                    break;
                }
            }
            if r.is_ok() {
                r = h.finish();
            }
            (h.into_inner().calls, r)
        }
    })
    .map_err(|p| format!("{}: panic: {}", STACKS[stack], p))
}

/// Two deviations: the virtual clock expires at probe `expiry` AND the hook fails at call `k`.
fn run_stack_expiring(
    alg: Algorithm,
    stack: usize,
    old: &[u8],
    new: &[u8],
    expiry: u64,
    k: Option<usize>,
) -> Result<(Vec<Call>, Result<(), usize>, u64), String> {
    let (n, m) = (old.len(), new.len());
    let mut probes = 0;
    let r = subject(|| {
        let clock = crate::instr::arm_clock(expiry);
        let dl = crate::instr::some_deadline();
        let out = match stack {
            0 => {
                let mut h = Rec::failing(k);
                let r = raw_into(alg, 1, &mut h, old, 0..n, new, 0..m, dl);
                (h.calls, r)
            }
            _ => {
                let mut h = Compact::new(Replace::new(Rec::failing(k)), old, new);
                let r = raw_into(alg, 1, &mut h, old, 0..n, new, 0..m, dl);
                (h.into_inner().into_inner().calls, r)
            }
        };
        probes = clock.probes.get();
        out
    })
    .map_err(|p| format!("{} with expiry at probe {}: panic: {}", STACKS[if stack == 0 { 0 } else { 3 }], expiry, p))?;
    Ok((r.0, r.1, probes))
}

/// every (expiry probe, failing call) combination of one input, for the bare hook and the
/// full capture-style stack
pub fn check_input_two_faults(alg: Algorithm, old: &[u8], new: &[u8]) -> Result<Out, String> {
    let mut runs = 0;
    let mut transitions = 0;
    let mut fp = Fp::new();
    let mut any = false;
    for stack in [0usize, 1] {
        let name = STACKS[if stack == 0 { 0 } else { 3 }];
        let (_, _, pinf) = run_stack_expiring(alg, stack, old, new, u64::MAX, None)?;
        runs += 1;
        for expiry in 0..pinf {
            let (success, r, _) = run_stack_expiring(alg, stack, old, new, expiry, None)?;
            runs += 1;
            if let Err(e) = r {
                return Err(format!("{}, expiry at probe {}: diff returned Err({}) although no hook call failed", name, expiry, e));
            }
            if success.iter().filter(|c| **c == Call::Fin).count() != 1 || success.last() != Some(&Call::Fin) {
                return Err(format!(
                    "{}, expiry at probe {}: finish not called exactly once and last [calls: {}]",
                    name, expiry, calls_to_string(&success)
                ));
            }
            fp.add(calls_fp(&success));
            for k in 0..success.len() {
                any = true;
                let (calls, r, _) = run_stack_expiring(alg, stack, old, new, expiry, Some(k))?;
                runs += 1;
                transitions += calls.len() as u64;
                if r != Err(k) {
                    return Err(format!(
                        "{}, expiry at probe {}: hook failed at call {} but the diff returned {:?}",
                        name, expiry, k, r
                    ));
                }
                if calls.len() != k + 1 || calls[..] != success[..k + 1] {
                    return Err(format!(
                        "{}, expiry at probe {}: hook failed at call {}; it saw [{}], the run without the failure is [{}]",
                        name, expiry, k, calls_to_string(&calls), calls_to_string(&success)
                    ));
                }
            }
        }
    }
    Ok(Out { nontrivial: any, transitions, fp: fp.0, runs })
}

/// the protocol clauses on one large input (bare hook and Compact<Replace<hook>>): success run
/// and a handful of failing call indices
pub fn check_large(alg: Algorithm, inp: &super::large::LargeInput) -> Result<(bool, u64, u64), String> {
    let (old, new) = (&inp.old[..], &inp.new[..]);
    let (n, m) = (old.len(), new.len());
    let run = |stack: usize, k: Option<usize>| -> Result<(Vec<Call>, Result<(), usize>), String> {
        subject(|| {
            if stack == 0 {
                let mut h = Rec::failing(k);
                let r = raw_into(alg, 0, &mut h, old, 0..n, new, 0..m, None);
                (h.calls, r)
            } else {
                let mut h = Compact::new(Replace::new(Rec::failing(k)), old, new);
                let r = raw_into(alg, 0, &mut h, old, 0..n, new, 0..m, None);
                (h.into_inner().into_inner().calls, r)
            }
        })
        .map_err(|p| format!("panic: {}", p))
    };
    let mut fp = Fp::new();
    let mut tr = 0;
    for stack in 0..2 {
        let name = STACKS[if stack == 0 { 0 } else { 3 }];
        let (success, r) = run(stack, None)?;
        if let Err(e) = r {
            return Err(format!("{}: diff returned Err({}) although no hook call failed", name, e));
        }
        let fins = success.iter().filter(|c| **c == Call::Fin).count();
        if fins != 1 || success.last() != Some(&Call::Fin) {
            let pos: Vec<usize> = success.iter().enumerate().filter(|(_, c)| **c == Call::Fin).map(|(i, _)| i).collect();
            return Err(format!(
                "{}: finish reached the hook {} times (at calls {:?} of {}), expected once and last",
                name,
                fins,
                pos,
                success.len()
            ));
        }
        fp.add(calls_fp(&success));
        tr += success.len() as u64;
        let len = success.len();
        // expensive inputs (large edit distance, or an LCS side beyond 2^15): three failing
        // positions instead of six
        let d: usize = success
            .iter()
            .map(|c| match *c {
                Call::Del(_, l, _) | Call::Ins(_, _, l) => l,
                Call::Rep(_, a, _, b) => a + b,
                _ => 0,
            })
            .sum();
        let heavy = (n + m) as u64 * (d as u64 + 1) > 20_000_000 || (alg == Algorithm::Lcs && n.max(m) > 32_768);
        let mut ks = if heavy { vec![0, len / 2, len - 1] } else { vec![0, 1, len / 3, len / 2, len.saturating_sub(2), len - 1] };
        ks.retain(|&k| k < len);
        ks.sort();
        ks.dedup();
        for k in ks {
            let (calls, r) = run(stack, Some(k))?;
            if r != Err(k) || calls.len() != k + 1 || calls[..] != success[..k + 1] {
                return Err(format!(
                    "{}: hook failed at call {} of {}: diff returned {:?} and the hook saw {} calls",
                    name,
                    k,
                    len,
                    r,
                    calls.len()
                ));
            }
        }
    }
    Ok((true, tr, fp.0))
}

fn expand_replace(calls: &[Call]) -> Vec<Call> {
    let mut v = vec![];
    for c in calls {
        match *c {
            Call::Rep(o, ol, n, nl) => {
                v.push(Call::Del(o, ol, n));
                v.push(Call::Ins(o, n, nl));
            }
            c => v.push(c),
        }
    }
    v
}

pub struct Out {
    pub nontrivial: bool,
    pub transitions: u64,
    pub fp: u64,
    pub runs: u64,
}

pub fn check_input(alg: Algorithm, old: &[u8], new: &[u8]) -> Result<Out, String> {
    let mut runs = 0;
    let mut transitions = 0;
    let mut fp = Fp::new();
    let mut success: Vec<Vec<Call>> = vec![];
    for stack in 0..STACKS.len() {
        let (calls, r) = run_stack(alg, stack, old, new, None)?;
        runs += 1;
        transitions += calls.len() as u64;
        if let Err(k) = r {
            return Err(format!(
                "{}: diff returned Err({}) although no hook call failed",
                STACKS[stack], k
            ));
        }
        let finishes = calls.iter().filter(|c| **c == Call::Fin).count();
        let want = if stack == 5 || stack == 7 { 0 } else { 1 };
        if finishes != want {
            return Err(format!(
                "{}: finish reached the hook {} times, expected {} [calls: {}]",
                STACKS[stack],
                finishes,
                want,
                calls_to_string(&calls)
            ));
        }
        if want == 1 && calls.last() != Some(&Call::Fin) {
            return Err(format!(
                "{}: a call follows finish [calls: {}]",
                STACKS[stack],
                calls_to_string(&calls)
            ));
        }
        fp.add(calls_fp(&calls));
        success.push(calls);
    }
    // finish-suppressing wrapper forwards everything except finish
    let mut bare_nofin = success[0].clone();
    bare_nofin.retain(|c| *c != Call::Fin);
    if success[5] != bare_nofin {
        return Err(format!(
            "NoFinishHook forwards [{}] but the bare hook sees [{}]",
            calls_to_string(&success[5]),
            calls_to_string(&success[0])
        ));
    }
    if success[6] != success[0] {
        return Err(format!(
            "&mut hook sees [{}] but the hook itself sees [{}]",
            calls_to_string(&success[6]),
            calls_to_string(&success[0])
        ));
    }
    let mut rep_nofin = success[1].clone();
    rep_nofin.retain(|c| *c != Call::Fin);
    if success[7] != rep_nofin {
        return Err(format!(
            "Replace<NoFinishHook<hook>>: the hook sees [{}] but Replace<hook> gives [{}] (everything except finish must be forwarded)",
            calls_to_string(&success[7]),
            calls_to_string(&success[1])
        ));
    }
    // a hook that does not override replace receives a delete followed by an insert
    if success[4] != expand_replace(&success[1]) {
        return Err(format!(
            "hook without replace() sees [{}]; with replace() it sees [{}] (every replace must arrive as delete then insert with the same indices)",
            calls_to_string(&success[4]),
            calls_to_string(&success[1])
        ));
    }
    if success[8] != expand_replace(&success[3]) {
        return Err(format!(
            "Compact<Replace<hook without replace()>> sees [{}]; with replace() it sees [{}]",
            calls_to_string(&success[8]),
            calls_to_string(&success[3])
        ));
    }
    // every failing call index
    for stack in 0..STACKS.len() {
        let total = success[stack].len();
        for k in 0..total {
            let (calls, r) = run_stack(alg, stack, old, new, Some(k))?;
            runs += 1;
            transitions += calls.len() as u64;
            match r {
                Err(e) if e == k => {}
                other => {
                    return Err(format!(
                        "{}: hook failed at call {} with Err({}) but the diff returned {:?}",
                        STACKS[stack], k, k, other
                    ))
                }
            }
            if calls.len() != k + 1 {
                return Err(format!(
                    "{}: hook failed at call {} but {} further call(s) were made [calls: {}]",
                    STACKS[stack],
                    k,
                    calls.len() - (k + 1),
                    calls_to_string(&calls)
                ));
            }
            if calls[..] != success[stack][..k + 1] {
                return Err(format!(
                    "{}: calls before the failure at call {} [{}] are not the prefix of the success run [{}]",
                    STACKS[stack],
                    k,
                    calls_to_string(&calls),
                    calls_to_string(&success[stack])
                ));
            }
        }
    }
    Ok(Out {
        nontrivial: success[0].len() >= 3,
        transitions,
        fp: fp.0,
        runs,
    })
}

// ---- one hook stack object used for several diffs in a row --------------------------------

pub const REUSE_STACKS: [&str; 7] = [
    "bare hook",
    "Replace<hook>",
    "Replace<hook without replace()>",
    "NoFinishHook<hook>",
    "&mut hook",
    "Replace<NoFinishHook<hook>>",
    "Replace<&mut hook>",
];

/// Runs the diffs of `hist` (all must succeed) and then old->new with the hook failing at call
/// `k`, all through the SAME stack object `h`.  Returns what the hook saw during the last diff.
fn reuse_on<H: DiffHook<Error = usize>>(
    h: &mut H,
    st: &SharedRec,
    alg: Algorithm,
    hist: &[(&[u8], &[u8])],
    old: &[u8],
    new: &[u8],
    k: Option<usize>,
) -> Result<(Vec<Call>, Result<(), usize>), String> {
    subject(|| {
        for (i, (a, b)) in hist.iter().enumerate() {
            st.reset(None);
            if let Err(e) = raw_into(alg, 0, h, *a, 0..a.len(), *b, 0..b.len(), None) {
                panic!("earlier diff #{} through the same stack returned Err({}) although no hook call failed", i, e);
            }
        }
        st.reset(k);
        let r = raw_into(alg, 0, h, old, 0..old.len(), new, 0..new.len(), None);
        (st.calls(), r)
    })
}

fn reuse_run(
    alg: Algorithm,
    stack: usize,
    hist: &[(&[u8], &[u8])],
    old: &[u8],
    new: &[u8],
    k: Option<usize>,
) -> Result<(Vec<Call>, Result<(), usize>), String> {
    let st = SharedRec::new();
    match stack {
        0 => reuse_on(&mut st.clone(), &st, alg, hist, old, new, k),
        1 => reuse_on(&mut Replace::new(st.clone()), &st, alg, hist, old, new, k),
        2 => reuse_on(&mut Replace::new(SharedRecNoReplace(st.clone())), &st, alg, hist, old, new, k),
        3 => reuse_on(&mut NoFinishHook::new(st.clone()), &st, alg, hist, old, new, k),
        4 => {
            let mut inner = st.clone();
            let mut h: &mut SharedRec = &mut inner;
            reuse_on(&mut h, &st, alg, hist, old, new, k)
        }
        5 => reuse_on(&mut Replace::new(NoFinishHook::new(st.clone())), &st, alg, hist, old, new, k),
        _ => {
            let mut inner = st.clone();
            reuse_on(&mut Replace::new(&mut inner), &st, alg, hist, old, new, k)
        }
    }
    .map_err(|p| format!("{} used for {} earlier diff(s): panic: {}", REUSE_STACKS[stack], hist.len(), p))
}

/// earlier diffs a reused stack has been through: they end in an equal run, a deletion, an
/// insertion, a replacement, nothing at all, and a replacement followed by an equal run
pub const HISTORY_INPUTS: [(&[u8], &[u8]); 6] = [
    (&[0], &[0]),
    (&[0, 1], &[0]),
    (&[0], &[0, 1]),
    (&[0, 1], &[0, 2]),
    (&[], &[]),
    (&[1, 0], &[2, 0]),
];

pub fn histories(depth: usize) -> Vec<Vec<(&'static [u8], &'static [u8])>> {
    let mut out = vec![];
    for a in HISTORY_INPUTS.iter() {
        out.push(vec![*a]);
    }
    if depth >= 2 {
        for a in HISTORY_INPUTS.iter() {
            for b in HISTORY_INPUTS.iter() {
                out.push(vec![*a, *b]);
            }
        }
    }
    out
}

/// The clauses of the statement on a diff that is NOT the first one its hook stack sees:
/// finish once and last on success; a failing call k is returned and nothing follows it.
pub fn check_reuse(alg: Algorithm, depth: usize, old: &[u8], new: &[u8]) -> Result<Out, String> {
    let mut runs = 0;
    let mut transitions = 0;
    let mut fp = Fp::new();
    let mut any = false;
    for hist in histories(depth) {
        let hd = || {
            hist.iter()
                .map(|(a, b)| format!("{:?}->{:?}", a, b))
                .collect::<Vec<_>>()
                .join(", ")
        };
        let mut success: Vec<Vec<Call>> = vec![];
        for stack in 0..REUSE_STACKS.len() {
            let (calls, r) = reuse_run(alg, stack, &hist, old, new, None)?;
            runs += 1;
            transitions += calls.len() as u64;
            if let Err(e) = r {
                return Err(format!(
                    "{} after earlier diffs [{}] through the same stack: diff returned Err({}) although no hook call failed",
                    REUSE_STACKS[stack], hd(), e
                ));
            }
            let finishes = calls.iter().filter(|c| **c == Call::Fin).count();
            let want = if stack == 3 || stack == 5 { 0 } else { 1 };
            if finishes != want || (want == 1 && calls.last() != Some(&Call::Fin)) {
                return Err(format!(
                    "{} after earlier diffs [{}] through the same stack: finish reached the hook {} times, expected {}{} [calls: {}]",
                    REUSE_STACKS[stack],
                    hd(),
                    finishes,
                    want,
                    if want == 1 { " and last" } else { "" },
                    calls_to_string(&calls)
                ));
            }
            fp.add(calls_fp(&calls));
            success.push(calls);
        }
        if success[2] != expand_replace(&success[1]) {
            return Err(format!(
                "after earlier diffs [{}] through the same stack: hook without replace() sees [{}]; with replace() it sees [{}]",
                hd(),
                calls_to_string(&success[2]),
                calls_to_string(&success[1])
            ));
        }
        for stack in 0..REUSE_STACKS.len() {
            for k in 0..success[stack].len() {
                any = true;
                let (calls, r) = reuse_run(alg, stack, &hist, old, new, Some(k))?;
                runs += 1;
                transitions += calls.len() as u64;
                if r != Err(k) {
                    return Err(format!(
                        "{} after earlier diffs [{}] through the same stack: hook failed at call {} with Err({}) but the diff returned {:?}",
                        REUSE_STACKS[stack], hd(), k, k, r
                    ));
                }
                if calls.len() != k + 1 {
                    return Err(format!(
                        "{} after earlier diffs [{}] through the same stack: hook failed at call {} but {} further call(s) were made [calls: {}]",
                        REUSE_STACKS[stack],
                        hd(),
                        k,
                        calls.len() - (k + 1),
                        calls_to_string(&calls)
                    ));
                }
            }
        }
    }
    Ok(Out { nontrivial: any, transitions, fp: fp.0, runs })
}

/// Direct drive of the forwarding wrappers with every call kind (the algorithms alone never
/// send `replace` through NoFinishHook / &mut with all argument shapes).
fn wrapper_protocol() -> Result<u64, String> {
    let mut n = 0;
    for a in 0..3usize {
        for b in 1..3usize {
            for c in 0..3usize {
                for d in 1..3usize {
                    for fail in [None, Some(0usize), Some(2), Some(4)] {
                        let script = [
                            Call::Eq(a, c, b),
                            Call::Del(a, b, c),
                            Call::Ins(a, c, d),
                            Call::Rep(a, b, c, d),
                            Call::Fin,
                        ];
                        fn drive<D: DiffHook<Error = usize>>(
                            h: &mut D,
                            script: &[Call],
                        ) -> Vec<Result<(), usize>> {
                            script
                                .iter()
                                .map(|c| match *c {
                                    Call::Eq(o, n, l) => h.equal(o, n, l),
                                    Call::Del(o, l, n) => h.delete(o, l, n),
                                    Call::Ins(o, n, l) => h.insert(o, n, l),
                                    Call::Rep(o, ol, n, nl) => h.replace(o, ol, n, nl),
                                    Call::Fin => h.finish(),
                                })
                                .collect()
                        }
                        let mut direct = Rec::failing(fail);
                        let rd = drive(&mut direct, &script);
                        // &mut
                        let mut inner = Rec::failing(fail);
                        let rm = subject(|| {
                            let mut h: &mut Rec = &mut inner;
                            drive(&mut h, &script)
                        })
                        .map_err(|p| format!("&mut hook: panic: {}", p))?;
                        if inner.calls != direct.calls || rm != rd {
                            return Err(format!(
                                "&mut hook does not forward faithfully: script [{}] arrives as [{}], results {:?} vs {:?}",
                                calls_to_string(&script), calls_to_string(&inner.calls), rm, rd
                            ));
                        }
                        // NoFinishHook
                        let mut h = NoFinishHook::new(Rec::failing(fail));
                        let rn = subject(|| drive(&mut h, &script))
                            .map_err(|p| format!("NoFinishHook: panic: {}", p))?;
                        let got = h.into_inner().calls;
                        if got[..] != direct.calls[..4] || rn[..4] != rd[..4] || rn[4] != Ok(()) {
                            return Err(format!(
                                "NoFinishHook does not forward everything except finish: script [{}] arrives as [{}], results {:?}",
                                calls_to_string(&script), calls_to_string(&got), rn
                            ));
                        }
                        n += 2;
                    }
                }
            }
        }
    }
    Ok(n)
}

fn scopes(tier: Tier) -> Vec<Scope> {
    match tier {
        Tier::Quick => vec![
            Scope::P { k: 3, n: 5 },
            Scope::P { k: 2, n: 7 },
            Scope::R { l: 8 },
        ],
        Tier::Thorough => vec![
            Scope::P { k: 3, n: 6 },
            Scope::P { k: 2, n: 9 },
            Scope::P { k: 4, n: 5 },
            Scope::R { l: 10 },
        ],
    }
}

pub fn run(cfg: &RunCfg) -> CheckReport {
    let mut rep = CheckReport::new(
        "fault_enumeration",
        "every (algorithm, old, new) from the listed scopes x 9 adapter stacks x failing call index k in {none} + 0..calls(success run of that stack); one case = one (algorithm, input) with all its stacks and k. Non-trivial: the bare success run has at least 3 hook calls. Cases distinct by construction. Plus a direct drive of NoFinishHook / &mut with every call kind and failure position, and a second part with two deviations per run (deadline expiry at probe e via the virtual clock AND hook failure at call k, every combination) on a smaller scope.",
    );
    rep.assume("fault model: a hook call returns Err once (at call k); calls made after it are recorded and counted as violations");
    rep.assume("adapter reuse: a Replace value is taken to be reusable after a finished or an aborted script (on the pinned tree it returns to its initial state on every flush); this leans on observed, not stated, behaviour (DESIGN.md section 13). Compact is never reused: it is built for one pair of sequences and keeps its op list");
    match wrapper_protocol() {
        Ok(n) => {
            rep.extra.insert("wrapper_protocol_scripts".into(), json!(n));
        }
        Err(e) => {
            let mut acc = Acc::default();
            acc.violation(|| (json!({"wrapper_protocol": true}), e));
            rep.part(
                "wrappers",
                json!({}),
                Explored {
                    acc,
                    shards_total: 1,
                    shards_done: 0,
                    capped: false,
                    wall_s: 0.0,
                },
            );
            return rep;
        }
    }
    let space = PairSpace::new(scopes(cfg.tier));
    let ex = explore(cfg, space.nshards(), |shard, acc| {
        space.for_each(shard, |old, new| {
            for &alg in ALGS.iter() {
                match check_input(alg, old, new) {
                    Ok(o) => {
                        if acc.want_sample() {
                            let mut c = seq_case(alg, old, new);
                            c["fault_runs"] = json!(o.runs);
                            acc.sample(c);
                        }
                        acc.count("diff_runs_incl_every_failing_k", o.runs);
                        acc.ok(o.nontrivial, o.transitions, o.fp);
                    }
                    Err(e) => acc.violation(|| (seq_case(alg, old, new), e)),
                }
                if acc.stop() {
                    return false;
                }
            }
            true
        });
    });
    rep.part("faults", json!({"scopes": space.describe(), "stacks": STACKS}), ex);
    if rep.has_violation() {
        return rep;
    }
    // deviation bound 2: deadline expiry at probe e AND a hook failure at call k
    let space2 = PairSpace::new(match cfg.tier {
        Tier::Quick => vec![Scope::P { k: 3, n: 5 }, Scope::P { k: 2, n: 7 }, Scope::R { l: 8 }],
        Tier::Thorough => vec![Scope::P { k: 3, n: 6 }, Scope::P { k: 2, n: 9 }, Scope::R { l: 10 }],
    });
    let ex = explore(cfg, space2.nshards(), |shard, acc| {
        space2.for_each(shard, |old, new| {
            for &alg in ALGS.iter() {
                match check_input_two_faults(alg, old, new) {
                    Ok(o) => {
                        if acc.want_sample() {
                            let mut c = seq_case(alg, old, new);
                            c["fault_runs"] = json!(o.runs);
                            acc.sample(c);
                        }
                        acc.count("diff_runs_every_expiry_x_every_failing_call", o.runs);
                        acc.ok(o.nontrivial, o.transitions, o.fp);
                    }
                    Err(e) => acc.violation(|| {
                        let mut c = seq_case(alg, old, new);
                        c["two_faults"] = json!(true);
                        (c, e)
                    }),
                }
                if acc.stop() {
                    return false;
                }
            }
            true
        });
    });
    rep.part("expiry-and-failure", json!({"scopes": space2.describe(), "stacks": [STACKS[0], STACKS[3]], "faults": "every expiry probe x every failing call index"}), ex);
    if rep.has_violation() {
        return rep;
    }
    // operation sequences: the same stack object is handed to several diffs in a row
    let depth = cfg.tier.pick(1usize, 2usize);
    let space3 = PairSpace::new(match cfg.tier {
        Tier::Quick => vec![Scope::P { k: 3, n: 4 }, Scope::P { k: 2, n: 6 }, Scope::R { l: 7 }],
        Tier::Thorough => vec![Scope::P { k: 3, n: 5 }, Scope::P { k: 2, n: 7 }, Scope::R { l: 8 }],
    });
    let ex = explore(cfg, space3.nshards(), |shard, acc| {
        space3.for_each(shard, |old, new| {
            for &alg in ALGS.iter() {
                match check_reuse(alg, depth, old, new) {
                    Ok(o) => {
                        if acc.want_sample() {
                            let mut c = seq_case(alg, old, new);
                            c["fault_runs"] = json!(o.runs);
                            acc.sample(c);
                        }
                        acc.count("diff_runs_through_a_reused_stack", o.runs);
                        acc.ok(o.nontrivial, o.transitions, o.fp);
                    }
                    Err(e) => acc.violation(|| {
                        let mut c = seq_case(alg, old, new);
                        c["reuse_depth"] = json!(depth);
                        (c, e)
                    }),
                }
                if acc.stop() {
                    return false;
                }
            }
            true
        });
    });
    rep.part(
        "reused-stack",
        json!({"scopes": space3.describe(), "stacks": REUSE_STACKS, "history_depth": depth,
               "earlier_diffs": HISTORY_INPUTS.iter().map(|(a, b)| format!("{:?}->{:?}", a, b)).collect::<Vec<_>>(),
               "faults": "every history of up to history_depth successful earlier diffs x every failing call index of the last diff",
               "note": "Compact is left out: it documents no reuse and keeps its op list after finish"}),
        ex,
    );
    if rep.has_violation() {
        return rep;
    }
    // a diff started from a destructor while its thread exits (thread-locals of the library, if it
    // has any, are already gone): same protocol
    {
        const INPUTS: [(&[u8], &[u8]); 4] = [(&[0, 1, 2, 3], &[0, 9, 2, 3, 4]), (&[], &[1]), (&[0, 1, 0, 1, 2], &[1, 0, 2, 2]), (&[5, 5], &[5, 5])];
        let ex = explore(cfg, INPUTS.len() * 3, |shard, acc| {
            let (old, new) = INPUTS[shard / 3];
            let alg = ALGS[shard % 3];
            let r = at_thread_exit(
                move || {
                    let _ = similar::capture_diff_slices(alg, old, new);
                    let _ = similar::TextDiff::configure().algorithm(alg).diff_chars("abc", "acd").ops().len();
                },
                move || {
                    for stack in 0..STACKS.len() {
                        let (calls, r) = run_stack(alg, stack, old, new, None)?;
                        if let Err(k) = r {
                            return Err(format!("{}: diff returned Err({}) although no hook call failed", STACKS[stack], k));
                        }
                        let finishes = calls.iter().filter(|c| **c == Call::Fin).count();
                        let want = if stack == 5 || stack == 7 { 0 } else { 1 };
                        if finishes != want || (want == 1 && calls.last() != Some(&Call::Fin)) {
                            return Err(format!(
                                "{}: finish reached the hook {} times, expected {} [calls: {}]",
                                STACKS[stack], finishes, want, calls_to_string(&calls)
                            ));
                        }
                        for k in 0..calls.len() {
                            let (c2, r2) = run_stack(alg, stack, old, new, Some(k))?;
                            if r2 != Err(k) || c2.len() != k + 1 {
                                return Err(format!("{}: hook failed at call {} but the diff returned {:?} after {} calls", STACKS[stack], k, r2, c2.len()));
                            }
                        }
                    }
                    Ok(())
                },
            );
            match r {
                Ok(()) => acc.ok(true, 1, shard as u64),
                Err(e) => acc.violation(|| {
                    let mut c = seq_case(alg, old, new);
                    c["at_thread_exit"] = json!(true);
                    (c, format!("diff started from a thread-local destructor at thread exit: {}", e))
                }),
            }
        });
        rep.part("thread-exit", json!({"inputs": INPUTS.len(), "note": "the whole protocol (12 stacks, every failing call index) run from the Drop of a thread-local value while its thread exits, after the same thread used the library"}), ex);
        if rep.has_violation() {
            return rep;
        }
    }
    // enumerated large inputs: success protocol and six failing call positions each
    super::large::run_part(cfg, &mut rep, &ALGS, &|a| if a == Algorithm::Lcs { 300 } else { usize::MAX }, check_large);
    if rep.has_violation() {
        return rep;
    }
    // LCS beyond a million table cells (size-triggered fallbacks): two inputs, LCS only
    let big = super::large::lcs_big_for(cfg.tier, true);
    let ex = explore(cfg, big.len(), |shard, acc| {
        let inp = &big[shard];
        match check_large(Algorithm::Lcs, inp) {
            Ok((nt, tr, fp)) => {
                acc.sample(super::large::case_json(Algorithm::Lcs, inp, cfg.seed));
                acc.ok(nt, tr, fp);
            }
            Err(e) => acc.violation(|| (super::large::case_json(Algorithm::Lcs, inp, cfg.seed), format!("{}: {}", inp.name, e))),
        }
    });
    rep.part("lcs-beyond-2^20-cells", json!({"inputs": big.iter().map(|i| i.name.clone()).collect::<Vec<_>>()}), ex);
    rep
}

pub fn replay(case: &Value) -> Result<String, String> {
    if let Some(r) = super::large::resolve(case) {
        let (alg, inp) = r?;
        return check_large(alg, &inp).map(|o| format!("holds; fingerprint {:x}", o.2));
    }
    if case.get("wrapper_protocol").is_some() {
        return wrapper_protocol().map(|n| format!("holds; {} scripts", n));
    }
    let alg = parse_alg(case)?;
    let old = parse_seq(case, "old")?;
    let new = parse_seq(case, "new")?;
    if case.get("at_thread_exit").is_some() {
        let (o2, n2) = (old.clone(), new.clone());
        return at_thread_exit(
            move || {
                let _ = similar::capture_diff_slices(alg, &o2, &n2);
                let _ = similar::TextDiff::configure().algorithm(alg).diff_chars("abc", "acd").ops().len();
            },
            move || check_input(alg, &old, &new).map(|_| ()),
        )
        .map(|_| "holds".to_string());
    }
    if let Some(d) = case.get("reuse_depth").and_then(|x| x.as_u64()) {
        return check_reuse(alg, d as usize, &old, &new).map(|o| format!("holds; {} runs, fingerprint {:x}", o.runs, o.fp));
    }
    if case.get("two_faults").is_some() {
        return check_input_two_faults(alg, &old, &new).map(|o| format!("holds; {} runs, fingerprint {:x}", o.runs, o.fp));
    }
    check_input(alg, &old, &new).map(|o| format!("holds; {} runs, fingerprint {:x}", o.runs, o.fp))
}
