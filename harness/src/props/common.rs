//! Helpers shared by the property modules: calling the library under test.

use crate::engine::subject;
use crate::instr::{Call, Rec};
use serde_json::{json, Value};
use similar::algorithms::{self, lcs, myers, patience};
use similar::{Algorithm, DiffOp};
use std::hash::Hash;
use std::ops::{Index, Range};
use std::time::Instant;

pub const ENTRY_NAMES: [&str; 4] = [
    "algorithms::diff",
    "algorithms::diff_deadline(None)",
    "<alg>::diff",
    "<alg>::diff_deadline(None)",
];

/// Runs one raw diff into `hook` through entry point `entry` (see ENTRY_NAMES).
pub fn raw_into<O, N, D>(
    alg: Algorithm,
    entry: usize,
    hook: &mut D,
    old: &O,
    or: Range<usize>,
    new: &N,
    nr: Range<usize>,
    deadline: Option<Instant>,
) -> Result<(), D::Error>
where
    O: Index<usize> + ?Sized,
    N: Index<usize> + ?Sized,
    D: algorithms::DiffHook,
    O::Output: Hash + Eq + Ord,
    N::Output: PartialEq<O::Output> + Hash + Eq + Ord,
{
    match entry {
        0 => algorithms::diff(alg, hook, old, or, new, nr),
        1 => algorithms::diff_deadline(alg, hook, old, or, new, nr, deadline),
        2 => match alg {
            Algorithm::Myers => myers::diff(hook, old, or, new, nr),
            Algorithm::Patience => patience::diff(hook, old, or, new, nr),
            Algorithm::Lcs => lcs::diff(hook, old, or, new, nr),
        },
        _ => match alg {
            Algorithm::Myers => myers::diff_deadline(hook, old, or, new, nr, deadline),
            Algorithm::Patience => patience::diff_deadline(hook, old, or, new, nr, deadline),
            Algorithm::Lcs => lcs::diff_deadline(hook, old, or, new, nr, deadline),
        },
    }
}

/// Raw callback stream of one diff; Err = the library panicked or the hook-less run failed.
pub fn raw_stream<O, N>(
    alg: Algorithm,
    entry: usize,
    old: &O,
    or: Range<usize>,
    new: &N,
    nr: Range<usize>,
) -> Result<Vec<Call>, String>
where
    O: Index<usize> + ?Sized,
    N: Index<usize> + ?Sized,
    O::Output: Hash + Eq + Ord,
    N::Output: PartialEq<O::Output> + Hash + Eq + Ord,
{
    let mut rec = Rec::new();
    let r = subject(|| raw_into(alg, entry, &mut rec, old, or, new, nr, None));
    match r {
        Err(p) => Err(format!("panic: {}", p)),
        Ok(Err(k)) => Err(format!("diff returned Err({}) although no hook call failed", k)),
        Ok(Ok(())) => Ok(rec.calls),
    }
}

pub fn capture<O, N>(
    alg: Algorithm,
    old: &O,
    or: Range<usize>,
    new: &N,
    nr: Range<usize>,
) -> Result<Vec<DiffOp>, String>
where
    O: Index<usize> + ?Sized,
    N: Index<usize> + ?Sized,
    O::Output: Hash + Eq + Ord,
    N::Output: PartialEq<O::Output> + Hash + Eq + Ord,
{
    subject(|| similar::capture_diff(alg, old, or, new, nr)).map_err(|p| format!("panic: {}", p))
}

pub fn seq_case(alg: Algorithm, old: &[u8], new: &[u8]) -> Value {
    json!({"algorithm": crate::oracles::alg_name(alg), "old": old, "new": new})
}

pub fn parse_seq(v: &Value, key: &str) -> Result<Vec<u8>, String> {
    v.get(key)
        .and_then(|x| x.as_array())
        .map(|a| {
            a.iter()
                .map(|x| x.as_u64().unwrap_or(0) as u8)
                .collect::<Vec<u8>>()
        })
        .ok_or_else(|| format!("replay case lacks array '{}'", key))
}

pub fn parse_alg(v: &Value) -> Result<Algorithm, String> {
    v.get("algorithm")
        .and_then(|x| x.as_str())
        .and_then(crate::oracles::alg_from_name)
        .ok_or_else(|| "replay case lacks 'algorithm'".to_string())
}

pub fn parse_u64(v: &Value, key: &str) -> Result<u64, String> {
    v.get(key)
        .and_then(|x| x.as_u64())
        .ok_or_else(|| format!("replay case lacks integer '{}'", key))
}

pub fn parse_str<'a>(v: &'a Value, key: &str) -> Result<&'a str, String> {
    v.get(key)
        .and_then(|x| x.as_str())
        .ok_or_else(|| format!("replay case lacks string '{}'", key))
}

pub fn parse_bytes(v: &Value, key: &str) -> Result<Vec<u8>, String> {
    parse_seq(v, key)
}
