//! Helpers shared by the property modules: calling the library under test.

use crate::engine::subject;
use crate::instr::{Call, Rec};
use serde_json::{json, Value};
use similar::algorithms::{self, lcs, myers, patience};
use similar::{Algorithm, DiffOp};
use std::hash::Hash;
use std::ops::{Index, Range};
use std::time::Instant;

pub const ENTRY_NAMES: [&str; 4] = [
    "algorithms::diff",
    "algorithms::diff_deadline(None)",
    "<alg>::diff",
    "<alg>::diff_deadline(None)",
];

/// Runs one raw diff into `hook` through entry point `entry` (see ENTRY_NAMES).
pub fn raw_into<O, N, D>(
    alg: Algorithm,
    entry: usize,
    hook: &mut D,
    old: &O,
    or: Range<usize>,
    new: &N,
    nr: Range<usize>,
    deadline: Option<Instant>,
) -> Result<(), D::Error>
where
    O: Index<usize> + ?Sized,
    N: Index<usize> + ?Sized,
    D: algorithms::DiffHook,
    O::Output: Hash + Eq + Ord,
    N::Output: PartialEq<O::Output> + Hash + Eq + Ord,
{
    match entry {
        0 => algorithms::diff(alg, hook, old, or, new, nr),
        1 => algorithms::diff_deadline(alg, hook, old, or, new, nr, deadline),
        2 => match alg {
            Algorithm::Myers => myers::diff(hook, old, or, new, nr),
            Algorithm::Patience => patience::diff(hook, old, or, new, nr),
            Algorithm::Lcs => lcs::diff(hook, old, or, new, nr),
        },
        _ => match alg {
            Algorithm::Myers => myers::diff_deadline(hook, old, or, new, nr, deadline),
            Algorithm::Patience => patience::diff_deadline(hook, old, or, new, nr, deadline),
            Algorithm::Lcs => lcs::diff_deadline(hook, old, or, new, nr, deadline),
        },
    }
}

/// Raw callback stream of one diff; Err = the library panicked or the hook-less run failed.
pub fn raw_stream<O, N>(
    alg: Algorithm,
    entry: usize,
    old: &O,
    or: Range<usize>,
    new: &N,
    nr: Range<usize>,
) -> Result<Vec<Call>, String>
where
    O: Index<usize> + ?Sized,
    N: Index<usize> + ?Sized,
    O::Output: Hash + Eq + Ord,
    N::Output: PartialEq<O::Output> + Hash + Eq + Ord,
{
    let mut rec = Rec::new();
    let r = subject(|| raw_into(alg, entry, &mut rec, old, or, new, nr, None));
    match r {
        Err(p) => Err(format!("panic: {}", p)),
        Ok(Err(k)) => Err(format!("diff returned Err({}) although no hook call failed", k)),
        Ok(Ok(())) => Ok(rec.calls),
    }
}

pub fn capture<O, N>(
    alg: Algorithm,
    old: &O,
    or: Range<usize>,
    new: &N,
    nr: Range<usize>,
) -> Result<Vec<DiffOp>, String>
where
    O: Index<usize> + ?Sized,
    N: Index<usize> + ?Sized,
    O::Output: Hash + Eq + Ord,
    N::Output: PartialEq<O::Output> + Hash + Eq + Ord,
{
    subject(|| similar::capture_diff(alg, old, or, new, nr)).map_err(|p| format!("panic: {}", p))
}

pub fn seq_case(alg: Algorithm, old: &[u8], new: &[u8]) -> Value {
    json!({"algorithm": crate::oracles::alg_name(alg), "old": old, "new": new})
}

pub fn parse_seq(v: &Value, key: &str) -> Result<Vec<u8>, String> {
    v.get(key)
        .and_then(|x| x.as_array())
        .map(|a| {
            a.iter()
                .map(|x| x.as_u64().unwrap_or(0) as u8)
                .collect::<Vec<u8>>()
        })
        .ok_or_else(|| format!("replay case lacks array '{}'", key))
}

pub fn parse_alg(v: &Value) -> Result<Algorithm, String> {
    v.get("algorithm")
        .and_then(|x| x.as_str())
        .and_then(crate::oracles::alg_from_name)
        .ok_or_else(|| "replay case lacks 'algorithm'".to_string())
}

pub fn parse_u64(v: &Value, key: &str) -> Result<u64, String> {
    v.get(key)
        .and_then(|x| x.as_u64())
        .ok_or_else(|| format!("replay case lacks integer '{}'", key))
}

pub fn parse_str<'a>(v: &'a Value, key: &str) -> Result<&'a str, String> {
    v.get(key)
        .and_then(|x| x.as_str())
        .ok_or_else(|| format!("replay case lacks string '{}'", key))
}

pub fn parse_bytes(v: &Value, key: &str) -> Result<Vec<u8>, String> {
    parse_seq(v, key)
}

/// Tier of the running exploration (0 = replay: no limit, 1 = quick, 2 = thorough): the
/// (expensive) consumption-mode sweeps run only on inputs up to a size limit chosen per call
/// site - `quick_limit` in the quick tier, `quick_limit + 3` in the thorough tier; replays run
/// them unconditionally, so a recorded case always reproduces.
pub static MODES_TIER: std::sync::atomic::AtomicU8 = std::sync::atomic::AtomicU8::new(0);

pub fn modes_wanted(size: usize, quick_limit: usize) -> bool {
    match MODES_TIER.load(std::sync::atomic::Ordering::Relaxed) {
        0 => true,
        1 => size <= quick_limit,
        _ => size <= quick_limit + 3,
    }
}

/// Every way of consuming an iterator has to give the items a plain `next()` loop gives.
/// `make` builds a fresh iterator, `key` turns an item into something comparable.  Covers
/// collect, fold, for_each, count, last, nth(k) (fresh and after j next() calls) followed by
/// the rest, skip, step_by, take-then-rest through by_ref, peekable, find/position (try_fold),
/// and size_hint at every position.  Returns the number of consumptions performed.
pub fn consumption_modes<I, K, MF, KF>(what: &dyn Fn() -> String, make: MF, key: KF) -> Result<u64, String>
where
    I: Iterator,
    K: PartialEq + std::fmt::Debug + Clone,
    MF: Fn() -> I,
    KF: Fn(I::Item) -> K,
{
    let mut want: Vec<K> = vec![];
    {
        let mut it = make();
        let mut hints = vec![it.size_hint()];
        while let Some(x) = it.next() {
            want.push(key(x));
            hints.push(it.size_hint());
        }
        // an exhausted iterator that is asked again may not produce items out of nowhere
        for (pos, (lo, hi)) in hints.iter().enumerate() {
            let left = want.len() - pos;
            if *lo > left || hi.map_or(false, |h| h < left) {
                return Err(format!(
                    "{}: size_hint after {} next() calls is ({}, {:?}) but {} items remain",
                    what(), pos, lo, hi, left
                ));
            }
        }
    }
    let len = want.len();
    let mut n = 1u64;
    let diff = |mode: &dyn Fn() -> String, got: &[K], exp: &[K]| -> Result<(), String> {
        if got != exp {
            Err(format!("{}: {} yields {:?}, a next() loop yields {:?}", what(), mode(), got, exp))
        } else {
            Ok(())
        }
    };
    let got: Vec<K> = make().map(&key).collect();
    diff(&|| "collect()".into(), &got, &want)?;
    let got = make().fold(Vec::new(), |mut v, x| {
        v.push(key(x));
        v
    });
    diff(&|| "fold()".into(), &got, &want)?;
    let mut got = vec![];
    make().for_each(|x| got.push(key(x)));
    diff(&|| "for_each()".into(), &got, &want)?;
    if make().count() != len {
        return Err(format!("{}: count() is {}, a next() loop yields {} items", what(), make().count(), len));
    }
    let got = make().last().map(&key);
    if got.as_ref() != want.last() {
        return Err(format!("{}: last() gives {:?}, expected {:?}", what(), got, want.last()));
    }
    n += 5;
    let lim = len.min(12);
    for j in 0..=lim.min(3) {
        for k in 0..=(lim + 1 - j.min(lim + 1)) {
            let mut it = make();
            for _ in 0..j {
                it.next();
            }
            let got = it.nth(k).map(&key);
            let exp = want.get(j + k);
            if got.as_ref() != exp {
                return Err(format!(
                    "{}: nth({}) after {} next() calls gives {:?}, expected {:?}",
                    what(), k, j, got, exp
                ));
            }
            let rest: Vec<K> = it.map(&key).collect();
            let exp_rest: &[K] = if j + k + 1 <= len { &want[j + k + 1..] } else { &[] };
            diff(&|| format!("the rest after {} next() calls and nth({})", j, k), &rest, exp_rest)?;
            n += 1;
        }
    }
    for k in 0..=lim + 1 {
        let got: Vec<K> = make().skip(k).map(&key).collect();
        diff(&|| format!("skip({})", k), &got, &want[k.min(len)..])?;
        let mut it = make();
        let head: Vec<K> = it.by_ref().take(k).map(&key).collect();
        diff(&|| format!("by_ref().take({})", k), &head, &want[..k.min(len)])?;
        let tail: Vec<K> = it.map(&key).collect();
        diff(&|| format!("the rest after by_ref().take({})", k), &tail, &want[k.min(len)..])?;
        let mut it = make();
        for _ in 0..k {
            it.next();
        }
        let c = it.count();
        if c != len - k.min(len) {
            return Err(format!("{}: count() after {} next() calls is {}, expected {}", what(), k, c, len - k.min(len)));
        }
        let mut it = make();
        for _ in 0..k {
            it.next();
        }
        let l = it.last().map(&key);
        let exp = if k < len { want.last() } else { None };
        if l.as_ref() != exp {
            return Err(format!("{}: last() after {} next() calls gives {:?}, expected {:?}", what(), k, l, exp));
        }
        n += 4;
    }
    for step in 1..=3usize {
        let got: Vec<K> = make().step_by(step).map(&key).collect();
        let exp: Vec<K> = want.iter().cloned().step_by(step).collect();
        diff(&|| format!("step_by({})", step), &got, &exp)?;
        let got: Vec<K> = make().skip(1).step_by(step).map(&key).collect();
        let exp: Vec<K> = want.iter().cloned().skip(1).step_by(step).collect();
        diff(&|| format!("skip(1).step_by({})", step), &got, &exp)?;
        n += 2;
    }
    for k in 0..=lim.min(3) {
        let mut pk = make().peekable();
        for _ in 0..k {
            pk.next();
        }
        let _ = pk.peek();
        let got: Vec<K> = pk.map(&key).collect();
        diff(&|| format!("peekable() after {} next() calls and a peek()", k), &got, &want[k.min(len)..])?;
        n += 1;
    }
    // try_fold-based searches: position of the i-th item, then the rest
    for i in 0..lim {
        let mut it = make();
        let mut seen = 0usize;
        let found = it.find(|_| {
            seen += 1;
            seen == i + 1
        });
        if found.map(&key).as_ref() != want.get(i) {
            return Err(format!("{}: find() stopping at item {} returns a different item", what(), i));
        }
        let rest: Vec<K> = it.map(&key).collect();
        diff(&|| format!("the rest after find() stopped at item {}", i), &rest, &want[i + 1..])?;
        n += 1;
    }
    let zipped: Vec<(K, K)> = make().zip(make().skip(1)).map(|(a, b)| (key(a), key(b))).collect();
    let exp: Vec<(K, K)> = want.iter().cloned().zip(want.iter().cloned().skip(1)).collect();
    if zipped != exp {
        return Err(format!("{}: zip(self.skip(1)) yields {:?}, expected {:?}", what(), zipped, exp));
    }
    let chained: Vec<K> = make().chain(make()).map(&key).collect();
    let exp: Vec<K> = want.iter().cloned().chain(want.iter().cloned()).collect();
    diff(&|| "chain(self)".into(), &chained, &exp)?;
    Ok(n + 2)
}

// ---- optional capabilities of an iterator type, probed without requiring them -----------------
// (autoref dispatch: if the concrete iterator type implements DoubleEndedIterator the first impl
// is chosen, otherwise the fallback; must be expanded where the iterator type is known, hence a
// macro.  Today none of the crate's iterators is double-ended; the day one becomes so, pulling
// from both ends has to give the same items.)

pub struct BackProbe<'a, I>(pub &'a mut I);

pub trait BackYes {
    type It;
    fn try_back(&mut self) -> Option<Option<Self::It>>;
}
impl<'a, I: DoubleEndedIterator> BackYes for BackProbe<'a, I> {
    type It = I::Item;
    fn try_back(&mut self) -> Option<Option<I::Item>> {
        Some(self.0.next_back())
    }
}
pub trait BackNo {
    type It;
    fn try_back(&mut self) -> Option<Option<Self::It>>;
}
impl<'a, 'b, I: Iterator> BackNo for &'b mut BackProbe<'a, I> {
    type It = I::Item;
    fn try_back(&mut self) -> Option<Option<I::Item>> {
        None
    }
}

/// `both_ends_modes!(what_closure, make_closure, key_closure)` -> Result<u64, String>
#[macro_export]
macro_rules! both_ends_modes {
    ($what:expr, $make:expr, $key:expr) => {{
        #[allow(unused_imports)]
        use $crate::props::common::{BackNo, BackProbe, BackYes};
        let mut res: Result<u64, String> = Ok(0);
        let want: Vec<_> = ($make)().map($key).collect();
        let supported = {
            let mut it = ($make)();
            let mut p = BackProbe(&mut it);
            (&mut p).try_back().is_some()
        };
        if supported {
            let len = want.len();
            let mut n = 0u64;
            'outer: for mode in 0..3usize {
                for f in 0..=len {
                    let mut it = ($make)();
                    let mut front = vec![];
                    let mut back = vec![];
                    match mode {
                        // f from the front, the rest from the back
                        0 => {
                            for _ in 0..f {
                                if let Some(x) = it.next() {
                                    front.push(($key)(x));
                                }
                            }
                            loop {
                                let mut p = BackProbe(&mut it);
                                match (&mut p).try_back() {
                                    Some(Some(x)) => back.push(($key)(x)),
                                    _ => break,
                                }
                            }
                        }
                        // f from the back, the rest from the front
                        1 => {
                            for _ in 0..f {
                                let mut p = BackProbe(&mut it);
                                if let Some(Some(x)) = (&mut p).try_back() {
                                    back.push(($key)(x));
                                }
                            }
                            while let Some(x) = it.next() {
                                front.push(($key)(x));
                            }
                        }
                        // alternating, starting at the back when f is odd
                        _ => {
                            let mut turn = f % 2 == 1;
                            loop {
                                if turn {
                                    let mut p = BackProbe(&mut it);
                                    match (&mut p).try_back() {
                                        Some(Some(x)) => back.push(($key)(x)),
                                        _ => break,
                                    }
                                } else {
                                    match it.next() {
                                        Some(x) => front.push(($key)(x)),
                                        None => break,
                                    }
                                }
                                turn = !turn;
                            }
                            if f > 1 {
                                back.reverse();
                                front.extend(back);
                                if front != want {
                                    res = Err(format!("{}: pulled alternately from both ends the iterator yields {:?}, from the front only {:?}", ($what)(), front, want));
                                }
                                break 'outer;
                            }
                        }
                    }
                    back.reverse();
                    front.extend(back);
                    n += 1;
                    if front != want {
                        res = Err(format!(
                            "{}: pulled from both ends ({} item(s) from the {} first) the iterator yields {:?}, from the front only {:?}",
                            ($what)(),
                            f,
                            if mode == 1 { "back" } else { "front" },
                            front,
                            want
                        ));
                        break 'outer;
                    }
                }
            }
            if res.is_ok() {
                res = Ok(n);
            }
        }
        res
    }};
}

#[cfg(test)]
mod tests {
    /// the probe really takes the double-ended path when it exists, and notices a broken one
    #[test]
    fn both_ends_probe_dispatch() {
        let v = vec![1, 2, 3, 4, 5];
        let r = crate::both_ends_modes!(|| "vec".to_string(), || v.iter().copied(), |x: i32| x);
        assert!(matches!(r, Ok(n) if n > 0), "{:?}", r);
        // not double-ended: probe answers 'unsupported'
        let r = crate::both_ends_modes!(|| "scan".to_string(), || v.iter().copied().scan(0, |_, x| Some(x)), |x: i32| x);
        assert_eq!(r, Ok(0));
        // a broken double-ended iterator (drops the middle once both ends were touched)
        struct Broken(Vec<i32>, bool, bool);
        impl Iterator for Broken {
            type Item = i32;
            fn next(&mut self) -> Option<i32> {
                self.1 = true;
                if self.2 && self.0.len() < 4 {
                    return None;
                }
                if self.0.is_empty() { None } else { Some(self.0.remove(0)) }
            }
        }
        impl DoubleEndedIterator for Broken {
            fn next_back(&mut self) -> Option<i32> {
                self.2 = true;
                self.0.pop()
            }
        }
        let r = crate::both_ends_modes!(|| "broken".to_string(), || Broken(vec![1, 2, 3, 4, 5], false, false), |x: i32| x);
        assert!(r.is_err(), "{:?}", r);
    }
}

// ---- code run while a thread is being torn down ---------------------------------------------------

/// Runs `body` inside the destructor of a thread-local value while its thread exits, after
/// `prelude` ran on that thread: thread-locals the library creates during `prelude` are registered
/// later than the guard, so they are already destroyed when `body` runs (destructors run in
/// reverse order of registration).  A diff called from a `Drop` at thread exit is ordinary use.
pub fn at_thread_exit<P, B>(prelude: P, body: B) -> Result<(), String>
where
    P: FnOnce() + Send + 'static,
    B: FnOnce() -> Result<(), String> + Send + 'static,
{
    use std::sync::{Arc, Mutex};
    struct Guard(Option<Box<dyn FnOnce() + Send>>);
    impl Drop for Guard {
        fn drop(&mut self) {
            if let Some(f) = self.0.take() {
                f()
            }
        }
    }
    thread_local! {
        static GUARD: std::cell::RefCell<Option<Guard>> = const { std::cell::RefCell::new(None) };
    }
    let out: Arc<Mutex<Option<Result<(), String>>>> = Arc::new(Mutex::new(None));
    let out2 = out.clone();
    let h = std::thread::Builder::new()
        .stack_size(16 << 20)
        .spawn(move || {
            crate::instr::disarm_all();
            GUARD.with(|g| {
                *g.borrow_mut() = Some(Guard(Some(Box::new(move || {
                    // a panic must not leave a destructor
                    let r = std::panic::catch_unwind(std::panic::AssertUnwindSafe(body))
                        .unwrap_or_else(|_| Err("panic while the thread was being torn down".to_string()));
                    *out2.lock().unwrap() = Some(r);
                }))));
            });
            prelude();
        })
        .map_err(|e| format!("cannot spawn: {}", e))?;
    h.join().map_err(|_| "the thread panicked".to_string())?;
    let r = out.lock().unwrap().take();
    r.unwrap_or_else(|| Err("the thread-exit body did not run".to_string()))
}

// ---- clone probe for iterator types -----------------------------------------------------------------
// (same autoref dispatch as BackProbe: none of the crate's iterators is Clone on the pinned tree)

pub struct CloneProbe<'a, I>(pub &'a I);

pub trait CloneYes {
    type It;
    fn try_clone(&self) -> Option<Self::It>;
}
impl<'a, I: Clone> CloneYes for CloneProbe<'a, I> {
    type It = I;
    fn try_clone(&self) -> Option<I> {
        Some(self.0.clone())
    }
}
pub trait CloneNo {
    type It;
    fn try_clone(&self) -> Option<Self::It>;
}
impl<'a, 'b, I> CloneNo for &'b CloneProbe<'a, I> {
    type It = I;
    fn try_clone(&self) -> Option<I> {
        None
    }
}

/// `clone_modes!(what_closure, make_closure, key_closure)` -> Result<u64, String>: if the iterator
/// type is Clone, a copy taken after j `next()` calls and the original must both yield the rest.
#[macro_export]
macro_rules! clone_modes {
    ($what:expr, $make:expr, $key:expr) => {{
        #[allow(unused_imports)]
        use $crate::props::common::{CloneNo, CloneProbe, CloneYes};
        let mut res: Result<u64, String> = Ok(0);
        let want: Vec<_> = ($make)().map($key).collect();
        let mut n = 0u64;
        for j in 0..=want.len().min(6) {
            let mut it = ($make)();
            for _ in 0..j {
                it.next();
            }
            let copy = {
                let p = CloneProbe(&it);
                (&p).try_clone()
            };
            match copy {
                None => break,
                Some(c) => {
                    let from_copy: Vec<_> = c.map($key).collect();
                    let from_orig: Vec<_> = it.map($key).collect();
                    n += 1;
                    if from_copy[..] != want[j..] || from_orig[..] != want[j..] {
                        res = Err(format!(
                            "{}: a clone taken after {} next() calls yields {:?} (the original then {:?}); a next() loop yields {:?}",
                            ($what)(),
                            j,
                            from_copy,
                            from_orig,
                            &want[j..]
                        ));
                        break;
                    }
                }
            }
        }
        if res.is_ok() {
            res = Ok(n);
        }
        res
    }};
}

#[cfg(test)]
mod clone_probe_tests {
    #[test]
    fn clone_probe_dispatch() {
        let v = vec![1, 2, 3];
        let r = crate::clone_modes!(|| "vec".to_string(), || v.iter().copied(), |x: i32| x);
        assert!(matches!(r, Ok(n) if n > 0), "{:?}", r);
        struct NotClone(std::vec::IntoIter<i32>);
        impl Iterator for NotClone {
            type Item = i32;
            fn next(&mut self) -> Option<i32> {
                self.0.next()
            }
        }
        let r = crate::clone_modes!(|| "nc".to_string(), || NotClone(vec![1, 2].into_iter()), |x: i32| x);
        assert_eq!(r, Ok(0));
        // a clone that drifts
        struct Drift(Vec<i32>, usize);
        impl Iterator for Drift {
            type Item = i32;
            fn next(&mut self) -> Option<i32> {
                let r = self.0.get(self.1).copied();
                self.1 += 1;
                r
            }
        }
        impl Clone for Drift {
            fn clone(&self) -> Drift {
                Drift(self.0.clone(), 0)
            }
        }
        let r = crate::clone_modes!(|| "drift".to_string(), || Drift(vec![1, 2, 3], 0), |x: i32| x);
        assert!(r.is_err(), "{:?}", r);
    }
}
