//! C13 — expanding ops into changes and slices is faithful.

use super::cap::toks;
use super::common::*;
use crate::engine::*;
use crate::oracles::*;
use crate::spaces::*;
use serde_json::{json, Value};
use similar::algorithms::{Capture, DiffHook};
use similar::{Change, ChangeTag, DiffOp, TextDiff};

fn op_json(op: &DiffOp) -> Value {
    match *op {
        DiffOp::Equal { old_index, new_index, len } => json!(["equal", old_index, new_index, len]),
        DiffOp::Delete { old_index, old_len, new_index } => json!(["delete", old_index, old_len, new_index]),
        DiffOp::Insert { old_index, new_index, new_len } => json!(["insert", old_index, new_index, new_len]),
        DiffOp::Replace { old_index, old_len, new_index, new_len } => {
            json!(["replace", old_index, old_len, new_index, new_len])
        }
    }
}

fn op_from_json(v: &Value) -> Result<DiffOp, String> {
    let a = v.as_array().ok_or("op is not an array")?;
    let g = |i: usize| a.get(i).and_then(|x| x.as_u64()).unwrap_or(0) as usize;
    Ok(match a.first().and_then(|x| x.as_str()) {
        Some("equal") => DiffOp::Equal { old_index: g(1), new_index: g(2), len: g(3) },
        Some("delete") => DiffOp::Delete { old_index: g(1), old_len: g(2), new_index: g(3) },
        Some("insert") => DiffOp::Insert { old_index: g(1), new_index: g(2), new_len: g(3) },
        Some("replace") => DiffOp::Replace { old_index: g(1), old_len: g(2), new_index: g(3), new_len: g(4) },
        _ => return Err("bad op kind".into()),
    })
}

/// Sequences for one op: old[i] = 100+i, new[j] = 200+j (all distinguishable), except that
/// an Equal op's ranges are made element-wise equal.
fn sequences(op: &DiffOp) -> (Vec<u32>, Vec<u32>) {
    let old: Vec<u32> = (0..12).map(|i| 100 + i).collect();
    let mut new: Vec<u32> = (0..12).map(|j| 200 + j).collect();
    if let DiffOp::Equal { old_index, new_index, len } = *op {
        for d in 0..len {
            new[new_index + d] = old[old_index + d];
        }
    }
    (old, new)
}

/// expected item-wise expansion from the definition
fn expected_changes(op: &DiffOp, old: &[u32], new: &[u32]) -> Vec<(ChangeTag, Option<usize>, Option<usize>, u32)> {
    let mut v = vec![];
    match *op {
        DiffOp::Equal { old_index, new_index, len } => {
            for d in 0..len {
                v.push((ChangeTag::Equal, Some(old_index + d), Some(new_index + d), old[old_index + d]));
            }
        }
        DiffOp::Delete { old_index, old_len, .. } => {
            for d in 0..old_len {
                v.push((ChangeTag::Delete, Some(old_index + d), None, old[old_index + d]));
            }
        }
        DiffOp::Insert { new_index, new_len, .. } => {
            for d in 0..new_len {
                v.push((ChangeTag::Insert, None, Some(new_index + d), new[new_index + d]));
            }
        }
        DiffOp::Replace { old_index, old_len, new_index, new_len } => {
            for d in 0..old_len {
                v.push((ChangeTag::Delete, Some(old_index + d), None, old[old_index + d]));
            }
            for d in 0..new_len {
                v.push((ChangeTag::Insert, None, Some(new_index + d), new[new_index + d]));
            }
        }
    }
    v
}

fn flat<T: Clone>(c: &Change<T>) -> (ChangeTag, Option<usize>, Option<usize>, T) {
    (c.tag(), c.old_index(), c.new_index(), c.value())
}

pub fn check_op(op: &DiffOp) -> Result<u64, String> {
    let (old, new) = sequences(op);
    let want = expected_changes(op, &old, &new);
    let got: Vec<_> = subject(|| op.iter_changes(&old[..], &new[..]).map(|c| flat(&c)).collect::<Vec<_>>())
        .map_err(|p| format!("{:?}: iter_changes: panic: {}", op, p))?;
    if got != want {
        return Err(format!(
            "{:?} over old={:?} new={:?}: iter_changes gives {:?}, the definition gives {:?}",
            op, old, new, got, want
        ));
    }
    // the same expansion however the iterator is consumed (nth / skip / step_by / last / count /
    // take-then-rest / peekable / find ...), and size_hint must be a valid bound (Iterator contract)
    {
        let r = subject(|| {
            consumption_modes(&|| "iter_changes".into(), || op.iter_changes(&old[..], &new[..]), |c| flat(&c)).and_then(|_| {
                consumption_modes(
                    &|| "iter_slices".into(),
                    || op.iter_slices(&old[..], &new[..]),
                    |(t, s)| (t, s.as_ptr() as usize, s.len()),
                )
            })
        })
        .map_err(|p| format!("{:?}: iterator adaptors: panic: {}", op, p))?;
        r.map_err(|e| format!("{:?} over old={:?} new={:?}: {}", op, old, new, e))?;
        let r = subject(|| {
            crate::both_ends_modes!(|| "iter_changes".to_string(), || op.iter_changes(&old[..], &new[..]), |c: similar::Change<u32>| flat(&c)).and_then(|_| {
                crate::both_ends_modes!(|| "iter_slices".to_string(), || op.iter_slices(&old[..], &new[..]), |(t, s): (ChangeTag, &[u32])| (t, s.as_ptr() as usize, s.len()))
            })
        })
        .map_err(|p| format!("{:?}: pulling from both ends: panic: {}", op, p))?;
        r.map_err(|e| format!("{:?} over old={:?} new={:?}: {}", op, old, new, e))?;
        let r = subject(|| {
            crate::clone_modes!(|| "iter_changes".to_string(), || op.iter_changes(&old[..], &new[..]), |c: similar::Change<u32>| flat(&c)).and_then(|_| {
                crate::clone_modes!(|| "iter_slices".to_string(), || op.iter_slices(&old[..], &new[..]), |(t, s): (ChangeTag, &[u32])| (t, s.as_ptr() as usize, s.len()))
            })
        })
        .map_err(|p| format!("{:?}: cloning the iterator: panic: {}", op, p))?;
        r.map_err(|e| format!("{:?} over old={:?} new={:?}: {}", op, old, new, e))?;
    }
    // value reads from the proper sequence also through Vec (Index<usize>) lookups
    let got2: Vec<_> = subject(|| op.iter_changes(&old, &new).map(|c| flat(&c)).collect::<Vec<_>>())
        .map_err(|p| format!("{:?}: iter_changes(Vec): panic: {}", op, p))?;
    if got2 != want {
        return Err(format!("{:?}: iter_changes over Vec lookups differs from the definition", op));
    }
    // slice-wise
    let slices: Vec<(ChangeTag, Vec<u32>)> = subject(|| {
        op.iter_slices(&old[..], &new[..])
            .map(|(t, s)| (t, s.to_vec()))
            .collect::<Vec<_>>()
    })
    .map_err(|p| format!("{:?}: iter_slices: panic: {}", op, p))?;
    let want_slices: Vec<(ChangeTag, Vec<u32>)> = match *op {
        DiffOp::Equal { old_index, len, .. } => vec![(ChangeTag::Equal, old[old_index..old_index + len].to_vec())],
        DiffOp::Delete { old_index, old_len, .. } => vec![(ChangeTag::Delete, old[old_index..old_index + old_len].to_vec())],
        DiffOp::Insert { new_index, new_len, .. } => vec![(ChangeTag::Insert, new[new_index..new_index + new_len].to_vec())],
        DiffOp::Replace { old_index, old_len, new_index, new_len } => vec![
            (ChangeTag::Delete, old[old_index..old_index + old_len].to_vec()),
            (ChangeTag::Insert, new[new_index..new_index + new_len].to_vec()),
        ],
    };
    if slices != want_slices {
        return Err(format!(
            "{:?} over old={:?} new={:?}: iter_slices gives {:?}, expected {:?}",
            op, old, new, slices, want_slices
        ));
    }
    // same items as the item-wise expansion
    let items_from_slices: Vec<(ChangeTag, u32)> = slices
        .iter()
        .flat_map(|(t, s)| s.iter().map(move |x| (*t, *x)))
        .collect();
    let items: Vec<(ChangeTag, u32)> = want.iter().map(|c| (c.0, c.3)).collect();
    if items_from_slices != items {
        return Err(format!("{:?}: slice-wise and item-wise expansion disagree", op));
    }
    // re-applying to a capturing hook reproduces the op
    let cap = subject(|| {
        let mut c = Capture::new();
        op.apply_to_hook(&mut c).unwrap();
        c.finish().unwrap();
        c.into_ops()
    })
    .map_err(|p| format!("{:?}: apply_to_hook: panic: {}", op, p))?;
    if cap != vec![*op] {
        return Err(format!("{:?}: apply_to_hook into Capture gives {:?}", op, cap));
    }
    // tag tuple / ranges
    let (tag, or, nr) = op.as_tag_tuple();
    if tag != op.tag() || or != op.old_range() || nr != op.new_range() {
        return Err(format!("{:?}: as_tag_tuple disagrees with tag()/old_range()/new_range()", op));
    }
    let mut fp = Fp::new();
    for c in &want {
        fp.add(c.0 as u64 + 4 * c.3 as u64);
    }
    Ok(fp.0)
}

/// A legal, virtual `Index<usize>`: item i is TABLE[(i + salt) & 255]; no memory behind it, so
/// ops may span billions of items.
pub struct Virt {
    table: Vec<u32>,
    salt: usize,
}
impl Virt {
    pub fn new(salt: usize) -> Virt {
        Virt {
            table: (0..256u32).map(|i| i * 7 + salt as u32 * 10_000).collect(),
            salt,
        }
    }
    pub fn at(&self, i: usize) -> u32 {
        self.table[(i.wrapping_add(self.salt)) & 255]
    }
}
impl std::ops::Index<usize> for Virt {
    type Output = u32;
    fn index(&self, i: usize) -> &u32 {
        &self.table[(i.wrapping_add(self.salt)) & 255]
    }
}

/// item-wise expansion of an op with huge lengths / indices over virtual sequences.
/// `full`: verify every change; otherwise verify the first and last 4096 and count the rest.
pub fn check_huge(op: &DiffOp, full: bool) -> Result<u64, String> {
    let old = Virt::new(1);
    let new = Virt::new(2);
    let (tag, or, nr) = op.as_tag_tuple();
    let (n_old, n_new) = match tag {
        similar::DiffTag::Equal => (or.len(), 0),
        similar::DiffTag::Delete => (or.len(), 0),
        similar::DiffTag::Insert => (0, nr.len()),
        similar::DiffTag::Replace => (or.len(), nr.len()),
    };
    let total = n_old as u64 + n_new as u64;
    let r = subject(|| -> Result<u64, String> {
        let mut count: u64 = 0;
        for ch in op.iter_changes(&old, &new) {
            let k = count;
            count += 1;
            if count > total {
                return Err(format!("more than {} changes", total));
            }
            if full || k < 4096 || k + 4096 >= total {
                let (want_tag, oi, ni, val) = if (k as usize) < n_old {
                    let i = or.start + k as usize;
                    match tag {
                        similar::DiffTag::Equal => (ChangeTag::Equal, Some(i), Some(nr.start + k as usize), old.at(i)),
                        _ => (ChangeTag::Delete, Some(i), None, old.at(i)),
                    }
                } else {
                    let j = nr.start + (k as usize - n_old);
                    (ChangeTag::Insert, None, Some(j), new.at(j))
                };
                if ch.tag() != want_tag || ch.old_index() != oi || ch.new_index() != ni || ch.value() != val {
                    return Err(format!(
                        "change #{} is ({:?}, {:?}, {:?}, {}), expected ({:?}, {:?}, {:?}, {})",
                        k,
                        ch.tag(),
                        ch.old_index(),
                        ch.new_index(),
                        ch.value(),
                        want_tag,
                        oi,
                        ni,
                        val
                    ));
                }
            }
        }
        Ok(count)
    })
    .map_err(|p| format!("{:?}: iter_changes: panic: {}", op, p))?
    .map_err(|e| format!("{:?} over virtual sequences: {}", op, e))?;
    if r != total {
        return Err(format!(
            "{:?} over virtual sequences: item-wise expansion yields {} changes, the op consumes {} items",
            op, r, total
        ));
    }
    Ok(total as u64)
}

pub fn huge_ops(tier: Tier) -> Vec<(DiffOp, bool)> {
    let mut v = vec![];
    // widths a cursor could be truncated to: u8, u16 (fully verified), u32 (counted)
    for &l in &[255usize, 256, 257, 65_535, 65_536, 65_537] {
        for &base in &[0usize, 5, (1usize << 32) + 7, (1usize << 40) + 1] {
            v.push((DiffOp::Delete { old_index: base, old_len: l, new_index: base / 2 }, true));
            v.push((DiffOp::Insert { old_index: base / 3, new_index: base, new_len: l }, true));
            v.push((DiffOp::Replace { old_index: base, old_len: l, new_index: base + 3, new_len: 2 }, true));
            v.push((DiffOp::Replace { old_index: base, old_len: 2, new_index: base + 3, new_len: l }, true));
            v.push((DiffOp::Equal { old_index: base, new_index: base, len: l }, true));
        }
    }
    // one op beyond 2^32 items in the quick tier (about 10 s of iteration), more in thorough
    let big = (1usize << 32) + 1;
    v.push((DiffOp::Replace { old_index: 1, old_len: big, new_index: 2, new_len: 2 }, false));
    if tier == Tier::Thorough {
        v.push((DiffOp::Delete { old_index: 3, old_len: big, new_index: 0 }, false));
        v.push((DiffOp::Insert { old_index: 0, new_index: 9, new_len: big }, false));
        v.push((DiffOp::Equal { old_index: 0, new_index: 9, len: big }, false));
        v.push((DiffOp::Replace { old_index: 1, old_len: 2, new_index: 2, new_len: big }, false));
        v.push((DiffOp::Delete { old_index: 3, old_len: 1usize << 33, new_index: 0 }, false));
    }
    v
}

pub fn all_ops(max_idx: usize, max_len: usize) -> Vec<DiffOp> {
    let mut v = vec![];
    for o in 0..=max_idx {
        for n in 0..=max_idx {
            for l in 0..=max_len {
                v.push(DiffOp::Equal { old_index: o, new_index: n, len: l });
                v.push(DiffOp::Delete { old_index: o, old_len: l, new_index: n });
                v.push(DiffOp::Insert { old_index: o, new_index: n, new_len: l });
                for l2 in 0..=max_len {
                    v.push(DiffOp::Replace { old_index: o, old_len: l, new_index: n, new_len: l2 });
                }
            }
        }
    }
    v
}

/// whole diffs: TextDiff::iter_all_changes / iter_changes / UnifiedDiffHunk::iter_changes equal
/// the concatenation of per-op expansions computed from the definition
pub fn check_whole(alg: similar::Algorithm, old: &[u8], new: &[u8]) -> Result<(bool, u64, u64), String> {
    let (o, n) = (toks(old), toks(new));
    let r = subject(|| {
        let d = TextDiff::configure().algorithm(alg).diff_slices(&o, &n);
        let ops = d.ops().to_vec();
        let all: Vec<_> = d.iter_all_changes().map(|c| flat(&c)).collect();
        let per_op: Vec<Vec<_>> = ops
            .iter()
            .map(|op| d.iter_changes(op).map(|c| flat(&c)).collect::<Vec<_>>())
            .collect();
        // whole-diff iteration however it is consumed (quick tier: up to 8 items in total)
        if modes_wanted(old.len() + new.len(), 8) {
            if let Err(e) = consumption_modes(&|| "TextDiff::iter_all_changes".to_string(), || d.iter_all_changes(), |c| flat(&c)) {
                panic!("{}", e);
            }
            // the derived comparisons of the returned values agree with their contents
            let all_c: Vec<_> = d.iter_all_changes().collect();
            for a in &all_c {
                for b in &all_c {
                    let same = flat(a) == flat(b);
                    if (a == b) != same || (a.cmp(b) == std::cmp::Ordering::Equal) != same {
                        panic!("Change values {:?} and {:?}: == / cmp disagree with their contents", flat(a), flat(b));
                    }
                    if same {
                        use std::hash::{Hash, Hasher};
                        let (mut ha, mut hb) = (std::collections::hash_map::DefaultHasher::new(), std::collections::hash_map::DefaultHasher::new());
                        a.hash(&mut ha);
                        b.hash(&mut hb);
                        if ha.finish() != hb.finish() {
                            panic!("equal Change values hash differently");
                        }
                    }
                }
            }
        }
        let mut hunks = vec![];
        for radius in [0usize, 1, 3] {
            let mut u = d.unified_diff();
            u.context_radius(radius);
            for h in u.iter_hunks() {
                let hops = h.ops().to_vec();
                let ch: Vec<_> = h.iter_changes().map(|c| flat(&c)).collect();
                hunks.push((hops, ch));
            }
        }
        (ops, all, per_op, hunks)
    })
    .map_err(|p| format!("panic: {}", p))?;
    let (ops, all, per_op, hunks) = r;
    let expand = |op: &DiffOp| -> Vec<(ChangeTag, Option<usize>, Option<usize>, &str)> {
        let mut v = vec![];
        let (tag, or, nr) = op.as_tag_tuple();
        match tag {
            similar::DiffTag::Equal => {
                for (i, j) in or.clone().zip(nr.clone()) {
                    v.push((ChangeTag::Equal, Some(i), Some(j), o[i]));
                }
            }
            similar::DiffTag::Delete => {
                for i in or {
                    v.push((ChangeTag::Delete, Some(i), None, o[i]));
                }
            }
            similar::DiffTag::Insert => {
                for j in nr {
                    v.push((ChangeTag::Insert, None, Some(j), n[j]));
                }
            }
            similar::DiffTag::Replace => {
                for i in or {
                    v.push((ChangeTag::Delete, Some(i), None, o[i]));
                }
                for j in nr {
                    v.push((ChangeTag::Insert, None, Some(j), n[j]));
                }
            }
        }
        v
    };
    let mut want_all = vec![];
    for (i, op) in ops.iter().enumerate() {
        let w = expand(op);
        if per_op[i] != w {
            return Err(format!(
                "TextDiff::iter_changes({:?}) gives {:?}, the definition gives {:?}",
                op, per_op[i], w
            ));
        }
        want_all.extend(w);
    }
    if all != want_all {
        return Err(format!(
            "TextDiff::iter_all_changes gives {:?}, the concatenation of per-op expansions is {:?}",
            all, want_all
        ));
    }
    let mut transitions = all.len() as u64;
    for (hops, ch) in &hunks {
        let mut w = vec![];
        for op in hops {
            w.extend(expand(op));
        }
        transitions += ch.len() as u64;
        if *ch != w {
            return Err(format!(
                "UnifiedDiffHunk::iter_changes over ops {:?} gives {:?}, expected {:?}",
                hops, ch, w
            ));
        }
    }
    Ok((ops.len() >= 2, transitions, ops_fp(&ops)))
}

pub fn run(cfg: &RunCfg) -> CheckReport {
    let mut rep = CheckReport::new(
        "exploration",
        "part 'ops': every op of the four kinds with old_index, new_index in 0..=I and every length in 0..=L (Replace: both lengths) over 8-item sequences whose old and new values all differ except inside an Equal op's ranges; item-wise and slice-wise expansion, apply_to_hook, tag tuple. Non-trivial: the op consumes at least 2 items. part 'whole': every (algorithm, pair) of the listed scope: TextDiff::iter_changes / iter_all_changes / UnifiedDiffHunk::iter_changes (radius 0,1,3) against the concatenation of per-op expansions; non-trivial: >= 2 ops. Cases distinct by construction.",
    );
    rep.assume("oracle: the definition of expansion written out in the harness");
    rep.assume("consumption modes: iter_changes and iter_slices of every op also through nth/skip/step_by/take-then-rest/fold/count/last/peekable/find/zip/chain, size_hint a valid bound at every position");
    let (mi, ml) = cfg.tier.pick((5, 3), (8, 4));
    let ops = all_ops(mi, ml);
    let chunk = 64;
    let nshards = (ops.len() + chunk - 1) / chunk;
    let ex = explore(cfg, nshards, |shard, acc| {
        for op in &ops[shard * chunk..((shard + 1) * chunk).min(ops.len())] {
            match check_op(op) {
                Ok(fp) => {
                    if acc.want_sample() || (shard % 97 == 3 && acc.samples.len() < 2) {
                        acc.sample(op_json(op));
                    }
                    let consumed = op.old_range().len() + op.new_range().len();
                    acc.ok(consumed >= 2, consumed as u64, fp);
                }
                Err(e) => acc.violation(|| (json!({"op": op_json(op)}), e)),
            }
            if acc.stop() {
                return;
            }
        }
    });
    rep.part("ops", json!({"max_index": mi, "max_len": ml, "ops": ops.len()}), ex);
    if rep.has_violation() {
        return rep;
    }
    // ops with huge lengths / indices over virtual (memory-less) Index implementations
    let huge = huge_ops(cfg.tier);
    let ex = explore(cfg, huge.len(), |shard, acc| {
        let (op, full) = &huge[shard];
        match check_huge(op, *full) {
            Ok(n) => {
                acc.sample(json!({"op": op_json(op), "every_change_verified": full}));
                acc.ok(true, n, n ^ shard as u64);
            }
            Err(e) => acc.violation(|| (json!({"huge_op": op_json(op), "full": full}), e)),
        }
    });
    rep.part("huge-ops", json!({"ops": huge.len(), "lengths": "255..=257, 65535..=65537 (every change verified); 2^32+1 (first/last 4096 verified, rest counted)", "bases": "0, 5, 2^32+7, 2^40+1", "note": "enumerated family over a virtual Index<usize>"}), ex);
    if rep.has_violation() {
        return rep;
    }
    let space = PairSpace::new(vec![
        cfg.tier.pick(Scope::P { k: 3, n: 5 }, Scope::P { k: 3, n: 7 }),
        cfg.tier.pick(Scope::P { k: 2, n: 8 }, Scope::P { k: 2, n: 10 }),
    ]);
    let ex = explore(cfg, space.nshards(), |shard, acc| {
        space.for_each(shard, |old, new| {
            for &alg in ALGS.iter() {
                match check_whole(alg, old, new) {
                    Ok((nt, tr, fp)) => {
                        if acc.want_sample() {
                            acc.sample(seq_case(alg, old, new));
                        }
                        acc.ok(nt, tr, fp);
                    }
                    Err(e) => acc.violation(|| (seq_case(alg, old, new), e)),
                }
                if acc.stop() {
                    return false;
                }
            }
            true
        });
    });
    rep.part("whole", json!({"scopes": space.describe()}), ex);
    rep
}

pub fn replay(case: &Value) -> Result<String, String> {
    if let Some(op) = case.get("huge_op") {
        let op = op_from_json(op)?;
        let full = case.get("full").and_then(|x| x.as_bool()).unwrap_or(false);
        return check_huge(&op, full).map(|n| format!("holds; {} changes", n));
    }
    if let Some(op) = case.get("op") {
        let op = op_from_json(op)?;
        return check_op(&op).map(|f| format!("holds; fingerprint {:x}", f));
    }
    let alg = parse_alg(case)?;
    let old = parse_seq(case, "old")?;
    let new = parse_seq(case, "new")?;
    check_whole(alg, &old, &new).map(|r| format!("holds; fingerprint {:x}", r.2))
}
