//! C12 — grouping keeps every change once, in order, with exactly n items of context.
//!
//! Explicit-state enumeration of the grammar of valid alternating op lists; every list is
//! replayed on the real `group_diff_ops` and compared with an item-wise reference grouping.

use super::cap::toks;
use super::common::*;
use crate::engine::*;
use crate::oracles::*;
use crate::spaces::*;
use serde_json::{json, Value};
use similar::algorithms::{Capture, DiffHook};
use similar::{group_diff_ops, DiffOp, DiffTag, TextDiff};

#[derive(Clone, Copy, Debug, PartialEq, Eq)]
pub enum Kind {
    D(usize),
    I(usize),
    R(usize, usize),
}

pub const KINDS8: [Kind; 8] = [
    Kind::D(1),
    Kind::I(1),
    Kind::R(1, 1),
    Kind::D(2),
    Kind::I(2),
    Kind::R(1, 2),
    Kind::R(2, 1),
    Kind::R(2, 2),
];
pub const KINDS3: [Kind; 3] = [Kind::D(1), Kind::I(2), Kind::R(2, 1)];

/// Symbolic op list: Equal(len) / change(kind), alternating.
#[derive(Clone, Copy, Debug, PartialEq, Eq)]
pub enum Sym {
    E(usize),
    C(Kind),
}

pub fn materialize(syms: &[Sym], base_old: usize, base_new: usize) -> Vec<DiffOp> {
    let mut o = base_old;
    let mut n = base_new;
    let mut out = vec![];
    for s in syms {
        match *s {
            Sym::E(l) => {
                out.push(DiffOp::Equal {
                    old_index: o,
                    new_index: n,
                    len: l,
                });
                o += l;
                n += l;
            }
            Sym::C(Kind::D(l)) => {
                out.push(DiffOp::Delete {
                    old_index: o,
                    old_len: l,
                    new_index: n,
                });
                o += l;
            }
            Sym::C(Kind::I(l)) => {
                out.push(DiffOp::Insert {
                    old_index: o,
                    new_index: n,
                    new_len: l,
                });
                n += l;
            }
            Sym::C(Kind::R(a, b)) => {
                out.push(DiffOp::Replace {
                    old_index: o,
                    old_len: a,
                    new_index: n,
                    new_len: b,
                });
                o += a;
                n += b;
            }
        }
    }
    out
}

/// like `materialize`, with every equal-run length multiplied by `scale`
pub fn materialize_scaled(syms: &[Sym], scale: usize) -> Vec<DiffOp> {
    let scaled: Vec<Sym> = syms
        .iter()
        .map(|s| match *s {
            Sym::E(l) => Sym::E(l * scale),
            c => c,
        })
        .collect();
    materialize(&scaled, 0, 0)
}

pub const SCALES: [usize; 4] = [1, (1 << 32) - 1, (1 << 32) + 3, 1 << 40];

/// radii for a given scale: multiples of the scale plus the extreme values of usize
pub fn huge_radii(scale: usize) -> Vec<usize> {
    let mut v = vec![0, scale, 2 * scale, 3 * scale, 3 * scale + 1, usize::MAX / 2, usize::MAX / 2 + 1, usize::MAX - 1, usize::MAX];
    v.sort();
    v.dedup();
    v
}

/// Item-wise reference grouping (zero-length Equal ops never appear).
pub fn reference_groups(ops: &[DiffOp], n: usize) -> Vec<Vec<DiffOp>> {
    let changes: Vec<usize> = ops
        .iter()
        .enumerate()
        .filter(|(_, o)| o.tag() != DiffTag::Equal)
        .map(|(i, _)| i)
        .collect();
    if changes.is_empty() {
        return vec![];
    }
    let first = changes[0];
    let last = *changes.last().unwrap();
    let mut groups: Vec<Vec<DiffOp>> = vec![vec![]];
    let eq = |o: usize, nn: usize, l: usize| DiffOp::Equal {
        old_index: o,
        new_index: nn,
        len: l,
    };
    for (i, op) in ops.iter().enumerate() {
        if let DiffOp::Equal {
            old_index,
            new_index,
            len,
        } = *op
        {
            if i < first {
                // leading run: last min(n, len) items
                let keep = n.min(len);
                if keep > 0 {
                    groups
                        .last_mut()
                        .unwrap()
                        .push(eq(old_index + len - keep, new_index + len - keep, keep));
                }
            } else if i > last {
                let keep = n.min(len);
                if keep > 0 {
                    groups.last_mut().unwrap().push(eq(old_index, new_index, keep));
                }
            } else if (len as u128) > 2 * (n as u128) {
                if n > 0 {
                    groups.last_mut().unwrap().push(eq(old_index, new_index, n));
                }
                groups.push(vec![]);
                if n > 0 {
                    groups
                        .last_mut()
                        .unwrap()
                        .push(eq(old_index + len - n, new_index + len - n, n));
                }
            } else if len > 0 {
                groups.last_mut().unwrap().push(*op);
            }
        } else {
            groups.last_mut().unwrap().push(*op);
        }
    }
    groups
}

fn strip_empty_equal(groups: Vec<Vec<DiffOp>>) -> Vec<Vec<DiffOp>> {
    groups
        .into_iter()
        .map(|g| {
            g.into_iter()
                .filter(|o| !matches!(o, DiffOp::Equal { len: 0, .. }))
                .collect()
        })
        .collect()
}

pub fn check_list(ops: &[DiffOp], n: usize) -> Result<u64, String> {
    let got = subject(|| group_diff_ops(ops.to_vec(), n))
        .map_err(|p| format!("group_diff_ops(n={}): panic: {}", n, p))?;
    // explicit clauses on the raw result
    let mut changes_seen = vec![];
    for (gi, g) in got.iter().enumerate() {
        if g.iter().all(|o| o.tag() == DiffTag::Equal) {
            return Err(format!(
                "n={}: group #{} consists of Equal ops only: {:?}",
                n, gi, g
            ));
        }
        for w in g.windows(2) {
            if w[0].old_range().end != w[1].old_range().start
                || w[0].new_range().end != w[1].new_range().start
            {
                return Err(format!("n={}: group #{} is not contiguous: {:?}", n, gi, g));
            }
        }
        for o in g {
            if o.tag() != DiffTag::Equal {
                changes_seen.push(*o);
            }
        }
        // at most n context items at both edges
        if let Some(DiffOp::Equal { len, .. }) = g.first() {
            if *len > n {
                return Err(format!(
                    "n={}: group #{} starts with {} context items: {:?}",
                    n, gi, len, g
                ));
            }
        }
        if let Some(DiffOp::Equal { len, .. }) = g.last() {
            if *len > n {
                return Err(format!(
                    "n={}: group #{} ends with {} context items: {:?}",
                    n, gi, len, g
                ));
            }
        }
    }
    let want_changes: Vec<DiffOp> = ops
        .iter()
        .copied()
        .filter(|o| o.tag() != DiffTag::Equal)
        .collect();
    if changes_seen != want_changes {
        return Err(format!(
            "n={}: groups contain the changes {:?}, the op list has {:?}",
            n, changes_seen, want_changes
        ));
    }
    let got_n = strip_empty_equal(got);
    let want = reference_groups(ops, n);
    if got_n != want {
        return Err(format!(
            "n={}: grouping gives {:?}, the reference (min(n,available) context at the edges, interior runs whole when <= 2n, split when > 2n) gives {:?}",
            n, got_n, want
        ));
    }
    // Capture::into_grouped_ops is the same function
    let via_capture = subject(|| {
        let mut c = Capture::new();
        for op in ops {
            op.apply_to_hook(&mut c).unwrap();
        }
        c.finish().unwrap();
        c.into_grouped_ops(n)
    })
    .map_err(|p| format!("Capture::into_grouped_ops(n={}): panic: {}", n, p))?;
    if strip_empty_equal(via_capture) != want {
        return Err(format!(
            "n={}: Capture::into_grouped_ops differs from the reference grouping",
            n
        ));
    }
    let mut fp = Fp::new();
    for g in &want {
        fp.add(ops_fp(g));
    }
    Ok(fp.0)
}

struct Gen<'a> {
    kinds: &'a [Kind],
    emax: usize,
    max_ops: usize,
    radii: &'a [usize],
    bases: &'a [(usize, usize)],
    states: u64,
    transitions: u64,
    lists: u64,
    nontrivial: u64,
    fp: Fp,
    outcomes: Vec<u64>,
    err: Option<(Vec<Sym>, usize, (usize, usize), String)>,
}

impl<'a> Gen<'a> {
    fn visit(&mut self, syms: &mut Vec<Sym>) {
        if self.err.is_some() {
            return;
        }
        self.states += 1;
        // every prefix is itself a complete list
        self.lists += 1;
        for &(bo, bn) in self.bases {
            let ops = materialize(syms, bo, bn);
            for &n in self.radii {
                match check_list(&ops, n) {
                    Ok(f) => {
                        self.fp.add(f);
                        if self.outcomes.len() < 4096 {
                            self.outcomes.push(f);
                        }
                    }
                    Err(e) => {
                        self.err = Some((syms.clone(), n, (bo, bn), e));
                        return;
                    }
                }
            }
        }
        let n_changes = syms.iter().filter(|s| matches!(s, Sym::C(_))).count();
        if n_changes >= 2 {
            self.nontrivial += 1;
        }
        if syms.len() == self.max_ops {
            return;
        }
        let next_is_equal = match syms.last() {
            None => unreachable!(),
            Some(Sym::E(_)) => false,
            Some(Sym::C(_)) => true,
        };
        if next_is_equal {
            for l in 1..=self.emax {
                self.transitions += 1;
                syms.push(Sym::E(l));
                self.visit(syms);
                syms.pop();
            }
        } else {
            for &k in self.kinds {
                self.transitions += 1;
                syms.push(Sym::C(k));
                self.visit(syms);
                syms.pop();
            }
        }
    }
}

fn syms_json(s: &[Sym]) -> Value {
    json!(s
        .iter()
        .map(|x| match *x {
            Sym::E(l) => json!(["E", l]),
            Sym::C(Kind::D(l)) => json!(["D", l]),
            Sym::C(Kind::I(l)) => json!(["I", l]),
            Sym::C(Kind::R(a, b)) => json!(["R", a, b]),
        })
        .collect::<Vec<_>>())
}

fn syms_from_json(v: &Value) -> Result<Vec<Sym>, String> {
    let mut out = vec![];
    for e in v.as_array().ok_or("list is not an array")? {
        let a = e.as_array().ok_or("bad symbol")?;
        let g = |i: usize| a.get(i).and_then(|x| x.as_u64()).unwrap_or(0) as usize;
        out.push(match a.first().and_then(|x| x.as_str()) {
            Some("E") => Sym::E(g(1)),
            Some("D") => Sym::C(Kind::D(g(1))),
            Some("I") => Sym::C(Kind::I(g(1))),
            Some("R") => Sym::C(Kind::R(g(1), g(2))),
            _ => return Err("bad symbol kind".into()),
        });
    }
    Ok(out)
}

/// real diffs: TextDiff::grouped_ops against group_diff_ops and the reference
fn check_textdiff(alg: similar::Algorithm, old: &[u8], new: &[u8], radii: &[usize]) -> Result<u64, String> {
    let (o, nn) = (toks(old), toks(new));
    let mut fp = Fp::new();
    for &n in radii {
        let (ops, grouped) = subject(|| {
            let d = TextDiff::configure().algorithm(alg).diff_slices(&o, &nn);
            (d.ops().to_vec(), d.grouped_ops(n))
        })
        .map_err(|p| format!("TextDiff::grouped_ops({}): panic: {}", n, p))?;
        let want = reference_groups(&ops, n);
        let got = strip_empty_equal(grouped);
        if got != want {
            return Err(format!(
                "TextDiff::grouped_ops({}) gives {:?}; reference grouping of ops {:?} gives {:?}",
                n, got, ops, want
            ));
        }
        for g in &want {
            fp.add(ops_fp(g));
        }
    }
    // operation sequences on one object: the same TextDiff grouped with radius a and then b,
    // and one unified-diff formatter whose radius is changed from a to b after it has been
    // used; the second answer must be the grouping for b
    for &a in radii {
        for &b in radii {
            let (ops, second, hunks) = subject(|| {
                let d = TextDiff::configure().algorithm(alg).diff_slices(&o, &nn);
                let _ = d.grouped_ops(a);
                let second = d.grouped_ops(b);
                let mut u = d.unified_diff();
                u.context_radius(a);
                let _ = u.iter_hunks().count();
                let _ = u.to_string();
                u.context_radius(b);
                let hunks: Vec<Vec<DiffOp>> = u.iter_hunks().map(|h| h.ops().to_vec()).collect();
                // a copy of the configured formatter, if the type can be copied at all: on a tree
                // where UnifiedDiff is not Clone, `(&u).clone()` merely copies the reference
                #[allow(noop_method_call, clippy::clone_on_copy)]
                let copy = (&u).clone();
                let copied: Vec<Vec<DiffOp>> = copy.iter_hunks().map(|h| h.ops().to_vec()).collect();
                if copied != hunks {
                    panic!("a clone of a UnifiedDiff set to radius {} yields hunks {:?}, the original {:?}", b, copied, hunks);
                }
                (d.ops().to_vec(), second, hunks)
            })
            .map_err(|p| format!("grouping with radius {} and then {} on the same object: panic: {}", a, b, p))?;
            let want = reference_groups(&ops, b);
            if strip_empty_equal(second) != want {
                return Err(format!(
                    "TextDiff::grouped_ops({}) called after grouped_ops({}) on the same diff differs from the reference grouping {:?} of ops {:?}",
                    b, a, want, ops
                ));
            }
            let got = strip_empty_equal(hunks);
            if got != want {
                return Err(format!(
                    "a UnifiedDiff used with radius {} and then set to radius {} yields hunks {:?}; the reference grouping of ops {:?} with radius {} gives {:?}",
                    a, b, got, ops, b, want
                ));
            }
        }
    }
    Ok(fp.0)
}

pub fn run(cfg: &RunCfg) -> CheckReport {
    let mut rep = CheckReport::new(
        "model_checking",
        "model: the grammar of valid alternating op lists — states are list prefixes, a transition appends an Equal run (length 1..Emax) after a change or a change (kinds below) after an Equal run, exact indices from base offsets (0,0) and (5,2); every state (every list of up to K ops, starting with an Equal run or with a change) is replayed on group_diff_ops and Capture::into_grouped_ops for every radius n and compared with an item-wise reference grouping (zero-length Equal ops ignored, the statement counts items). evaluations = lists x bases x radii; non-trivial: the list has at least two changes. Part 'textdiff': TextDiff::grouped_ops on real diffs of all pairs of a small scope.",
    );
    rep.assume("oracle: reference grouping written from the statement; op lists are the alternating lists the quantifier names");
    let (kinds_short, k_short, kinds_long, k_long, emax, radii): (&[Kind], usize, &[Kind], usize, usize, Vec<usize>) =
        match cfg.tier {
            Tier::Quick => (&KINDS8, 6, &KINDS3, 8, 7, vec![0, 1, 2, 3]),
            Tier::Thorough => (&KINDS8, 7, &KINDS3, 9, 9, vec![0, 1, 2, 3, 4]),
        };
    let bases = [(0usize, 0usize), (5, 2)];
    // shards: (kinds/K variant, first symbol)
    let mut shards: Vec<(usize, Sym)> = vec![];
    for variant in 0..2 {
        let kinds = if variant == 0 { kinds_short } else { kinds_long };
        for l in 1..=emax {
            shards.push((variant, Sym::E(l)));
        }
        for &k in kinds {
            shards.push((variant, Sym::C(k)));
        }
    }
    let ex = explore(cfg, shards.len(), |shard, acc| {
        let (variant, first) = shards[shard];
        let (kinds, max_ops) = if variant == 0 {
            (kinds_short, k_short)
        } else {
            (kinds_long, k_long)
        };
        let mut g = Gen {
            kinds,
            emax,
            max_ops,
            radii: &radii,
            bases: &bases,
            states: 0,
            transitions: 0,
            lists: 0,
            nontrivial: 0,
            fp: Fp::new(),
            outcomes: vec![],
            err: None,
        };
        let mut syms = vec![first];
        g.visit(&mut syms);
        acc.count("states", g.states);
        acc.count("grammar_transitions", g.transitions);
        acc.count("lists", g.lists);
        if let Some((syms, n, base, e)) = g.err {
            acc.violation(|| {
                (
                    json!({"list": syms_json(&syms), "n": n, "base_old": base.0, "base_new": base.1}),
                    e,
                )
            });
            return;
        }
        if acc.want_sample() || shard % 7 == 0 {
            acc.sample(json!({"first_symbol": syms_json(&[first]), "max_ops": max_ops, "lists_below": g.lists}));
        }
        let per = (radii.len() * bases.len()) as u64;
        acc.evals += g.lists * per - 1;
        acc.nontrivial += (g.nontrivial * per).saturating_sub(1);
        for f in g.outcomes {
            acc.outcomes.insert(f);
        }
        acc.ok(g.nontrivial > 0, g.transitions, g.fp.0);
    });
    let states = ex.acc.counters.get("states").copied().unwrap_or(0) + 1;
    let trans = ex.acc.counters.get("grammar_transitions").copied().unwrap_or(0) + shards.len() as u64;
    let lists = ex.acc.counters.get("lists").copied().unwrap_or(0);
    rep.extra.insert("states".into(), json!(states));
    rep.extra.insert("transitions".into(), json!(trans));
    rep.extra.insert(
        "traces_validated_against_impl".into(),
        json!(lists * (radii.len() * bases.len()) as u64 * 2),
    );
    rep.extra.insert(
        "model_binding".into(),
        json!("every list generated by the grammar is executed on group_diff_ops and Capture::into_grouped_ops; nothing is abstracted"),
    );
    rep.part(
        "grammar",
        json!({"max_ops": [k_short, k_long], "change_kinds": [format!("{:?}", kinds_short), format!("{:?}", kinds_long)], "equal_run_lengths": format!("1..={}", emax), "radii": radii, "bases": format!("{:?}", bases)}),
        ex,
    );
    if rep.has_violation() {
        return rep;
    }
    // huge radii and run lengths (op lists are only index ranges, so they cost nothing to build):
    // every list of <= 4 ops with equal runs 1..=emax scaled by each factor, radii = multiples
    // of the factor and the extreme values of usize (`context_radius(usize::MAX)` = "whole file")
    {
        let mut lists: Vec<Vec<Sym>> = vec![];
        fn gen(cur: &mut Vec<Sym>, out: &mut Vec<Vec<Sym>>, emax: usize, max_ops: usize) {
            if !cur.is_empty() {
                out.push(cur.clone());
            }
            if cur.len() == max_ops {
                return;
            }
            let next_equal = matches!(cur.last(), Some(Sym::C(_)));
            let next_change = matches!(cur.last(), Some(Sym::E(_)));
            if cur.is_empty() || next_equal {
                for l in 1..=emax {
                    cur.push(Sym::E(l));
                    gen(cur, out, emax, max_ops);
                    cur.pop();
                }
            }
            if cur.is_empty() || next_change {
                for &k in KINDS3.iter() {
                    cur.push(Sym::C(k));
                    gen(cur, out, emax, max_ops);
                    cur.pop();
                }
            }
        }
        gen(&mut vec![], &mut lists, emax, 4);
        let chunk = 64;
        let nsh = (lists.len() + chunk - 1) / chunk;
        let ex = explore(cfg, nsh, |shard, acc| {
            for syms in &lists[shard * chunk..((shard + 1) * chunk).min(lists.len())] {
                for &scale in SCALES.iter() {
                    let ops = materialize_scaled(syms, scale);
                    for n in huge_radii(scale) {
                        match check_list(&ops, n) {
                            Ok(fp) => {
                                if acc.want_sample() {
                                    acc.sample(json!({"list": syms_json(syms), "scale": scale, "n": n}));
                                }
                                let nch = syms.iter().filter(|s| matches!(s, Sym::C(_))).count();
                                acc.ok(nch >= 2, syms.len() as u64, fp);
                            }
                            Err(e) => acc.violation(|| (json!({"list": syms_json(syms), "scale": scale, "n": n}), e)),
                        }
                        if acc.stop() {
                            return;
                        }
                    }
                }
            }
        });
        rep.part("huge-radii", json!({"lists": lists.len(), "max_ops": 4, "scales": SCALES, "radii": "0, s, 2s, 3s, 3s+1, usize::MAX/2, usize::MAX/2+1, usize::MAX-1, usize::MAX"}), ex);
        if rep.has_violation() {
            return rep;
        }
    }
    // (the single-Equal list and the empty list)
    for ops in [vec![], materialize(&[Sym::E(3)], 0, 0)] {
        for &n in &radii {
            if let Err(e) = check_list(&ops, n) {
                let mut acc = Acc::default();
                acc.violation(|| (json!({"list": if ops.is_empty() { json!([]) } else { json!([["E", 3]]) }, "n": n, "base_old": 0, "base_new": 0}), e));
                rep.part("trivial-lists", json!({}), Explored { acc, shards_total: 1, shards_done: 0, capped: false, wall_s: 0.0 });
                return rep;
            }
        }
    }
    let space = PairSpace::new(vec![cfg.tier.pick(Scope::P { k: 2, n: 6 }, Scope::P { k: 2, n: 8 })]);
    let ex = explore(cfg, space.nshards(), |shard, acc| {
        space.for_each(shard, |old, new| {
            for &alg in ALGS.iter() {
                match check_textdiff(alg, old, new, &radii) {
                    Ok(fp) => {
                        if acc.want_sample() {
                            acc.sample(seq_case(alg, old, new));
                        }
                        acc.ok(old != new && !old.is_empty() && !new.is_empty(), 1, fp)
                    }
                    Err(e) => acc.violation(|| (seq_case(alg, old, new), e)),
                }
                if acc.stop() {
                    return false;
                }
            }
            true
        });
    });
    rep.part("textdiff", json!({"scopes": space.describe(), "radii": radii}), ex);
    if rep.has_violation() {
        return rep;
    }
    // a text diff whose sides together exceed 2^24 tokens (f32 cannot tell its ratio from 1.0)
    let ex = explore(cfg, 2, |shard, acc| {
        let n = (1usize << 23) + shard;
        let old: Vec<&str> = vec!["a\n"; n];
        let mut new = old.clone();
        if shard == 0 {
            new.push("b\n");
        } else {
            new[n / 2] = "b\n";
        }
        let r = subject(|| {
            let d = TextDiff::from_slices(&old, &new);
            (d.ops().to_vec(), d.grouped_ops(3), d.grouped_ops(0))
        });
        match r {
            Err(p) => acc.violation(|| (json!({"huge_textdiff": shard}), format!("panic: {}", p))),
            Ok((ops, g3, g0)) => {
                for (n, g) in [(3usize, g3), (0, g0)] {
                    let want = reference_groups(&ops, n);
                    if strip_empty_equal(g.clone()) != want {
                        acc.violation(|| {
                            (
                                json!({"huge_textdiff": shard}),
                                format!(
                                    "TextDiff::grouped_ops({}) on {} vs {} tokens gives {} group(s), the reference grouping of its ops {:?} gives {:?}",
                                    n,
                                    old.len(),
                                    new.len(),
                                    g.len(),
                                    ops,
                                    want
                                ),
                            )
                        });
                        return;
                    }
                }
                acc.sample(json!({"tokens_old": old.len(), "tokens_new": new.len()}));
                acc.ok(true, ops.len() as u64, ops_fp(&ops));
            }
        }
    });
    rep.part("textdiff-more-than-2^24-tokens", json!({"cases": ["2^23 equal tokens + 1 appended", "2^23+1 tokens, one replaced"]}), ex);
    rep
}

pub fn replay(case: &Value) -> Result<String, String> {
    if case.get("huge_textdiff").is_some() {
        return Err("re-run ./run.sh C12 quick: the huge text-diff case is rebuilt from its description".into());
    }
    if case.get("scale").is_some() {
        let syms = syms_from_json(&case["list"])?;
        let n = parse_u64(case, "n")? as usize;
        let scale = parse_u64(case, "scale")? as usize;
        let ops = materialize_scaled(&syms, scale);
        return check_list(&ops, n).map(|f| format!("holds; fingerprint {:x}", f));
    }
    if case.get("list").is_some() {
        let syms = syms_from_json(&case["list"])?;
        let n = parse_u64(case, "n")? as usize;
        let bo = parse_u64(case, "base_old")? as usize;
        let bn = parse_u64(case, "base_new")? as usize;
        let ops = materialize(&syms, bo, bn);
        return check_list(&ops, n).map(|f| format!("holds; fingerprint {:x}", f));
    }
    let alg = parse_alg(case)?;
    let old = parse_seq(case, "old")?;
    let new = parse_seq(case, "new")?;
    check_textdiff(alg, &old, &new, &[0, 1, 2, 3, 4]).map(|f| format!("holds; fingerprint {:x}", f))
}
