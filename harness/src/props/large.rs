//! Enumerated (NOT exhaustive) families of large, structured inputs.
//!
//! The exhaustive scopes stop at ~10 items per side.  Thresholds (the > 100 token switch, the
//! sizing of Myers' diagonal arrays, recursion depth, long equal runs, many distinct items)
//! only come into play on larger inputs, so every sequence-level check additionally runs its
//! oracle on this fixed list.  The list is deterministic given VERIF_SEED; evidence labels the
//! part as an enumerated family, never as exhaustive.

use crate::engine::Tier;
use crate::spaces::Lcg;

#[derive(Clone, Debug)]
pub struct LargeInput {
    pub name: String,
    pub old: Vec<u32>,
    pub new: Vec<u32>,
}

pub const BASES: [&str; 7] = ["distinct", "lcg2", "lcg4", "lcg16", "period3", "period7", "runs"];

fn base(kind: usize, n: usize, seed: u64) -> Vec<u32> {
    let mut g = Lcg(0x1a26e ^ seed ^ (kind as u64) << 20 ^ (n as u64) << 32);
    match kind {
        0 => (0..n as u32).map(|i| 1000 + i).collect(),
        1 => (0..n).map(|_| g.below(2) as u32).collect(),
        2 => (0..n).map(|_| g.below(4) as u32).collect(),
        3 => (0..n).map(|_| g.below(16) as u32).collect(),
        4 => (0..n).map(|i| (i % 3) as u32).collect(),
        5 => (0..n).map(|i| (i % 7) as u32).collect(),
        // long runs of equal items with a few unique separators
        _ => (0..n)
            .map(|i| if i % 17 == 16 { 500 + i as u32 } else { (i / 17 % 2) as u32 })
            .collect(),
    }
}

pub fn sizes(tier: Tier) -> Vec<usize> {
    match tier {
        Tier::Quick => vec![24, 60, 130, 300, 520],
        Tier::Thorough => vec![24, 60, 130, 300, 520, 700, 1500],
    }
}

/// The family list for one size.
pub fn family(n: usize, seed: u64) -> Vec<LargeInput> {
    let mut out = vec![];
    for kind in 0..BASES.len() {
        let b = base(kind, n, seed);
        let nm = |s: String| format!("{}-{}-{}", BASES[kind], n, s);
        out.push(LargeInput { name: nm("identical".into()), old: b.clone(), new: b.clone() });
        for &k in &[1usize, 3, 8, (n / 5).max(2)] {
            // k substitutions spread evenly
            let mut s = b.clone();
            for i in 0..k {
                let p = (n * (2 * i + 1)) / (2 * k);
                s[p.min(n - 1)] = 90_000 + i as u32;
            }
            out.push(LargeInput { name: nm(format!("{}-substitutions", k)), old: b.clone(), new: s });
            // k deletions spread evenly
            let mut d = vec![];
            for (i, &x) in b.iter().enumerate() {
                let hit = (0..k).any(|j| (n * (2 * j + 1)) / (2 * k) == i);
                if !hit {
                    d.push(x);
                }
            }
            out.push(LargeInput { name: nm(format!("{}-deletions", k)), old: b.clone(), new: d.clone() });
            out.push(LargeInput { name: nm(format!("{}-insertions", k)), old: d, new: b.clone() });
            // k insertions of copies of neighbouring items (slide candidates)
            let mut dup = vec![];
            for (i, &x) in b.iter().enumerate() {
                dup.push(x);
                if (0..k).any(|j| (n * (2 * j + 1)) / (2 * k) == i) {
                    dup.push(x);
                }
            }
            out.push(LargeInput { name: nm(format!("{}-duplicated-items", k)), old: b.clone(), new: dup });
        }
        // block move
        let len = (n / 6).max(2);
        let mut v = b.clone();
        let blk: Vec<u32> = v.drain(n / 8..n / 8 + len).collect();
        let to = (2 * n / 3).min(v.len());
        for (i, x) in blk.into_iter().enumerate() {
            v.insert(to + i, x);
        }
        out.push(LargeInput { name: nm("block-move".into()), old: b.clone(), new: v });
        // block duplicated at the end
        let mut v = b.clone();
        v.extend_from_slice(&b[n / 3..n / 3 + len]);
        out.push(LargeInput { name: nm("block-appended".into()), old: b.clone(), new: v });
        // halves swapped
        let mut v = b[n / 2..].to_vec();
        v.extend_from_slice(&b[..n / 2]);
        out.push(LargeInput { name: nm("halves-swapped".into()), old: b.clone(), new: v });
        // shift by one
        let mut v = b.clone();
        v.rotate_left(1);
        out.push(LargeInput { name: nm("shift-by-one".into()), old: b.clone(), new: v });
        // one side empty, one side a single item
        out.push(LargeInput { name: nm("vs-empty".into()), old: b.clone(), new: vec![] });
        out.push(LargeInput { name: nm("empty-vs".into()), old: vec![], new: b.clone() });
        out.push(LargeInput { name: nm("vs-single".into()), old: b.clone(), new: vec![b[n / 2]] });
        // prefix / suffix only in common
        let mut v = b[..n / 3].to_vec();
        v.extend((0..n as u32 / 2).map(|i| 70_000 + i));
        out.push(LargeInput { name: nm("common-prefix-only".into()), old: b.clone(), new: v });
        let mut v: Vec<u32> = (0..n as u32 / 2).map(|i| 60_000 + i).collect();
        v.extend_from_slice(&b[2 * n / 3..]);
        out.push(LargeInput { name: nm("common-suffix-only".into()), old: b.clone(), new: v });
    }
    // unrelated / reversed / independent random texts
    let nn = n as u32;
    out.push(LargeInput { name: format!("unrelated-{}", n), old: (0..nn).collect(), new: (nn..2 * nn).collect() });
    out.push(LargeInput { name: format!("reversed-{}", n), old: (0..nn).collect(), new: (0..nn).rev().collect() });
    for &a in &[2u64, 4, 16] {
        let mut g = Lcg(0xfeed ^ seed ^ a << 8 ^ (n as u64) << 24);
        out.push(LargeInput {
            name: format!("independent-lcg{}-{}", a, n),
            old: (0..n).map(|_| g.below(a) as u32).collect(),
            new: (0..n + n / 7).map(|_| g.below(a) as u32).collect(),
        });
    }
    // many unique anchors in a different order with junk between them
    let mut o = vec![];
    let mut w = vec![];
    let anchors = (n / 4).max(3);
    for i in 0..anchors {
        o.push(2000 + i as u32);
        o.push((i % 2) as u32);
        o.push((i % 2) as u32);
        let j = (i * 7 + 3) % anchors;
        w.push(2000 + j as u32);
        w.push(((i + 1) % 2) as u32);
    }
    out.push(LargeInput { name: format!("shuffled-anchors-{}", n), old: o, new: w });
    out
}

/// very unequal side lengths (one side tiny, the other long): edit distances far above the
/// length of the short side
pub fn asymmetric(seed: u64) -> Vec<LargeInput> {
    let mut out = vec![];
    let mut g = Lcg(0xa5a5 ^ seed);
    for &(a, b) in &[(1usize, 600usize), (2, 530), (10, 520), (40, 800), (255, 300), (257, 256), (1, 8200), (100, 9000)] {
        let long: Vec<u32> = (0..b as u32).map(|i| 5000 + i).collect();
        // short side unrelated
        let short: Vec<u32> = (0..a as u32).map(|i| 9000 + i).collect();
        out.push(LargeInput { name: format!("asym-{}x{}-unrelated", a, b), old: short.clone(), new: long.clone() });
        out.push(LargeInput { name: format!("asym-{}x{}-unrelated-swapped", a, b), old: long.clone(), new: short.clone() });
        // short side = items of the long side picked from the middle (all common)
        let pick: Vec<u32> = (0..a).map(|i| long[(b / 2 + i * (b / (2 * a).max(1))).min(b - 1)]).collect();
        out.push(LargeInput { name: format!("asym-{}x{}-subsequence", a, b), old: pick.clone(), new: long.clone() });
        out.push(LargeInput { name: format!("asym-{}x{}-subsequence-swapped", a, b), old: long.clone(), new: pick });
        // one shared item in the middle of otherwise unrelated sides
        let mut s2 = short.clone();
        s2[a / 2] = long[b / 2];
        out.push(LargeInput { name: format!("asym-{}x{}-one-common", a, b), old: s2.clone(), new: long.clone() });
        out.push(LargeInput { name: format!("asym-{}x{}-one-common-swapped", a, b), old: long.clone(), new: s2 });
        // small alphabet
        let l4: Vec<u32> = (0..b).map(|_| g.below(4) as u32).collect();
        let s4: Vec<u32> = (0..a).map(|_| g.below(4) as u32).collect();
        out.push(LargeInput { name: format!("asym-{}x{}-lcg4", a, b), old: s4.clone(), new: l4.clone() });
        out.push(LargeInput { name: format!("asym-{}x{}-lcg4-swapped", a, b), old: l4, new: s4 });
    }
    out
}

/// inputs with more than a thousand items that are unique on a side (anchor-heavy Patience
/// runs; caps / heuristics on the number of anchors only show here)
pub fn many_unique(_seed: u64) -> Vec<LargeInput> {
    let mut out = vec![];
    for &blocks in &[300usize, 520, 700] {
        // block i: old = S_i M_i 0 0 0, new = S_i 0 0 0 M_i  (S_i, M_i unique)
        let mut o = vec![];
        let mut n = vec![];
        for i in 0..blocks as u32 {
            o.extend_from_slice(&[10_000 + i, 50_000 + i, 0, 0, 0]);
            n.extend_from_slice(&[10_000 + i, 0, 0, 0, 50_000 + i]);
        }
        out.push(LargeInput { name: format!("unique-blocks-{}", blocks), old: o, new: n });
    }
    for &n in &[1100usize, 2100] {
        let b: Vec<u32> = (0..n as u32).map(|i| 1000 + i).collect();
        let mut s = b.clone();
        for i in 0..20 {
            s[(n * (2 * i + 1)) / 40] = 90_000 + i as u32;
        }
        out.push(LargeInput { name: format!("unique-distinct-{}-20-substitutions", n), old: b.clone(), new: s });
        // two interleaved halves
        let mut v = vec![];
        for i in 0..n / 2 {
            v.push(b[i]);
            v.push(b[n / 2 + i]);
        }
        out.push(LargeInput { name: format!("unique-distinct-{}-interleaved", n), old: b, new: v });
    }
    out
}

/// sizes straddling typical thresholds (T-1, T, T+1, T+2 for T = 16 .. 1024) with edits at the
/// very ends and in the middle, alone and combined
pub fn threshold_sweep(_seed: u64) -> Vec<LargeInput> {
    let mut out = vec![];
    for &t in &[16usize, 32, 64, 100, 128, 256, 512, 1024] {
        for delta in [-1i64, 0, 1, 2] {
            let n = (t as i64 + delta) as usize;
            for kind in 0..2 {
                let b: Vec<u32> = if kind == 0 {
                    (0..n as u32).map(|i| 3000 + i).collect()
                } else {
                    (0..n).map(|i| (i % 3) as u32).collect()
                };
                let nm = |s: &str| format!("thr-{}-{}-{}", n, if kind == 0 { "distinct" } else { "period3" }, s);
                let mut v = b.clone();
                v.push(77_777);
                out.push(LargeInput { name: nm("append-one"), old: b.clone(), new: v });
                let mut v = vec![77_777];
                v.extend_from_slice(&b);
                out.push(LargeInput { name: nm("prepend-one"), old: b.clone(), new: v });
                out.push(LargeInput { name: nm("delete-first"), old: b.clone(), new: b[1..].to_vec() });
                out.push(LargeInput { name: nm("delete-last"), old: b.clone(), new: b[..n - 1].to_vec() });
                let mut v = b.clone();
                v[n / 2] = 77_777;
                out.push(LargeInput { name: nm("substitute-middle"), old: b.clone(), new: v });
                let mut v = b.clone();
                v.insert(n / 2, b[n / 2]);
                out.push(LargeInput { name: nm("duplicate-middle"), old: b.clone(), new: v });
                let mut v = b.clone();
                v[0] = 77_777;
                v[n - 1] = 88_888;
                out.push(LargeInput { name: nm("substitute-first-and-last"), old: b.clone(), new: v });
                let mut v = b[1..].to_vec();
                v.push(88_888);
                out.push(LargeInput { name: nm("delete-first-append-one"), old: b.clone(), new: v });
            }
        }
    }
    out
}

/// different kinds of edits interacting at a distance, and nested repetitions
pub fn mixed_shapes(seed: u64) -> Vec<LargeInput> {
    let mut out = vec![];
    let mut g = Lcg(0x31337 ^ seed);
    for &n in &[40usize, 150, 400] {
        for kind in 0..3 {
            let b: Vec<u32> = match kind {
                0 => (0..n as u32).map(|i| 4000 + i).collect(),
                1 => (0..n).map(|_| g.below(5) as u32).collect(),
                // nested repetition: ((abc)^3 d)^m
                _ => (0..n).map(|i| if i % 10 == 9 { 3 } else { (i % 10 % 3) as u32 }).collect(),
            };
            let nm = |s: &str| format!("mix-{}-{}-{}", n, ["distinct", "lcg5", "nested"][kind], s);
            // substitution near the start, deletion in the middle, insertion near the end
            let mut v = b.clone();
            v[2] = 66_001;
            v.remove(n / 2);
            v.insert(v.len() - 2, 66_002);
            out.push(LargeInput { name: nm("subst-start+delete-middle+insert-end"), old: b.clone(), new: v });
            // a moved block and a substitution inside the moved block
            let mut v = b.clone();
            let len = n / 8;
            let mut blk: Vec<u32> = v.drain(n / 10..n / 10 + len).collect();
            blk[len / 2] = 66_003;
            let to = v.len() - n / 10;
            for (i, x) in blk.into_iter().enumerate() {
                v.insert(to + i, x);
            }
            out.push(LargeInput { name: nm("moved-block-with-substitution"), old: b.clone(), new: v });
            // every 7th item deleted and every 11th item of the rest duplicated
            let mut v = vec![];
            for (i, &x) in b.iter().enumerate() {
                if i % 7 == 6 {
                    continue;
                }
                v.push(x);
                if i % 11 == 10 {
                    v.push(x);
                }
            }
            out.push(LargeInput { name: nm("periodic-deletes-and-duplicates"), old: b.clone(), new: v });
            // two copies of the text against one (and back)
            let mut v = b.clone();
            v.extend_from_slice(&b);
            out.push(LargeInput { name: nm("doubled"), old: b.clone(), new: v.clone() });
            out.push(LargeInput { name: nm("halved"), old: v, new: b.clone() });
            // inner third reversed
            let mut v = b.clone();
            v[n / 3..2 * n / 3].reverse();
            out.push(LargeInput { name: nm("inner-third-reversed"), old: b.clone(), new: v });
        }
    }
    out
}

/// items of the common head / tail that reappear exactly once in the changed middle of both
/// sides and cross the genuinely unique items there ("echo" of the surroundings)
pub fn echo_shapes(_seed: u64) -> Vec<LargeInput> {
    let mut out = vec![];
    for &h in &[0usize, 50, 96, 120, 300] {
        for &k in &[1usize, 3] {
            for &e in &[2usize, 4] {
                let head: Vec<u32> = (0..h as u32).map(|i| 300_000 + i).collect();
                let tail: Vec<u32> = (0..(h / 2) as u32).map(|i| 400_000 + i).collect();
                let echo: Vec<u32> = (0..e as u32).map(|i| 500 + i).collect();
                let uniq: Vec<u32> = (0..k as u32).map(|i| 600 + i).collect();
                let cat = |parts: &[&Vec<u32>]| -> Vec<u32> { parts.iter().flat_map(|p| p.iter().copied()).collect() };
                // echo of the head end
                out.push(LargeInput {
                    name: format!("echo-head{}-uniq{}-echo{}-a", h, k, e),
                    old: cat(&[&head, &echo, &uniq, &echo, &tail]),
                    new: cat(&[&head, &echo, &echo, &uniq, &tail]),
                });
                // echo of the tail start
                out.push(LargeInput {
                    name: format!("echo-head{}-uniq{}-echo{}-b", h, k, e),
                    old: cat(&[&head, &echo, &uniq, &echo, &tail]),
                    new: cat(&[&head, &uniq, &echo, &echo, &tail]),
                });
                // both orders swapped
                out.push(LargeInput {
                    name: format!("echo-head{}-uniq{}-echo{}-c", h, k, e),
                    old: cat(&[&head, &echo, &echo, &uniq, &tail]),
                    new: cat(&[&head, &echo, &uniq, &echo, &tail]),
                });
            }
        }
    }
    out
}

/// staggered repeats: each nesting level has exactly one new unique anchor and the remaining
/// gap shrinks by two items per level (deep anchor recursion); the first item is edited
pub fn staggered(_seed: u64) -> Vec<LargeInput> {
    fn build(head: u32, m: u32, k: u32) -> Vec<u32> {
        let b = |i: u32| 1_000_000 + i;
        let a = |i: u32| 2_000_000 + i;
        let mut rv = vec![head];
        rv.extend((1..=m).map(b));
        rv.extend((1..=m).map(b));
        rv.push(a(k));
        rv.push(b(1));
        for j in (1..k).rev() {
            rv.push(a(j));
            rv.push(a(j + 1));
        }
        rv
    }
    let mut out = vec![];
    for &(m, k) in &[(1u32, 30u32), (1, 100), (50, 60), (400, 150), (1500, 300)] {
        let base = build(1, m, k);
        out.push(LargeInput { name: format!("staggered-m{}-k{}-first-replaced", m, k), old: base.clone(), new: build(2, m, k) });
        out.push(LargeInput { name: format!("staggered-m{}-k{}-first-deleted", m, k), old: base.clone(), new: base[1..].to_vec() });
        let mut v = base.clone();
        let n = v.len();
        v[n - 1] = 7;
        out.push(LargeInput { name: format!("staggered-m{}-k{}-last-replaced", m, k), old: base.clone(), new: v });
        let mut v = base.clone();
        v.insert(n / 2, 7);
        out.push(LargeInput { name: format!("staggered-m{}-k{}-middle-insert", m, k), old: base, new: v });
    }
    out
}

/// thousands of small hunks (more raw ops than any batch / window / buffer size one might
/// pick), many of them insertions of a duplicate that Compact has to slide
pub fn many_hunks(_seed: u64) -> Vec<LargeInput> {
    let mut out = vec![];
    for &n in &[4500usize, 9000] {
        for kind in 0..3 {
            let b: Vec<u32> = match kind {
                0 => (0..n as u32).map(|i| 200_000 + i).collect(),
                1 => (0..n).map(|i| (i % 2) as u32).collect(),
                _ => (0..n).map(|i| ((i / 3) % 5) as u32).collect(),
            };
            let nm = |s: &str| format!("hunks-{}-{}-{}", n, ["distinct", "period2", "triples"][kind], s);
            // every 3rd item duplicated
            let mut v = vec![];
            for (i, &x) in b.iter().enumerate() {
                v.push(x);
                if i % 3 == 1 {
                    v.push(x);
                }
            }
            out.push(LargeInput { name: nm("every-3rd-duplicated"), old: b.clone(), new: v.clone() });
            out.push(LargeInput { name: nm("every-3rd-duplicate-removed"), old: v, new: b.clone() });
            // every 4th item substituted
            let mut v = b.clone();
            for i in (0..n).step_by(4) {
                v[i] = 900_000 + i as u32;
            }
            out.push(LargeInput { name: nm("every-4th-substituted"), old: b.clone(), new: v });
            // every 5th item deleted, and a copy of the following item inserted two places later
            let mut v = vec![];
            for (i, &x) in b.iter().enumerate() {
                if i % 5 == 0 {
                    continue;
                }
                v.push(x);
                if i % 5 == 3 {
                    v.push(b[(i + 1).min(n - 1)]);
                }
            }
            out.push(LargeInput { name: nm("every-5th-deleted-and-neighbour-copied"), old: b.clone(), new: v });
        }
    }
    out
}

/// inputs whose changed middle has more than 2^20 cells for a quadratic table: only ever run
/// with LCS by the checks that ask for them (one LCS diff of this size takes about a second)
/// the `lcs_big` inputs for a tier: the 70000-item one makes Compact's clean-up of 70 000 unit
/// deletes quadratic (about 10 s per captured diff) and is left to the thorough tier where a
/// check goes through Compact
pub fn lcs_big_for(tier: Tier, through_compact: bool) -> Vec<LargeInput> {
    lcs_big()
        .into_iter()
        .filter(|i| tier == Tier::Thorough || !through_compact || i.old.len().max(i.new.len()) < 70_000)
        .collect()
}

pub fn lcs_big() -> Vec<LargeInput> {
    vec![
        LargeInput {
            name: "lcsbig-1030x1030-unrelated-with-common-ends".into(),
            old: std::iter::once(1).chain((0..1030u32).map(|i| 10_000 + i)).chain(std::iter::once(2)).collect(),
            new: std::iter::once(1).chain((0..1030u32).map(|i| 20_000 + i)).chain(std::iter::once(2)).collect(),
        },
        // one side longer than 2^16 after stripping, the short side's items sit at both ends of
        // the long side in conflicting order (narrow table coordinates would alias)
        LargeInput {
            name: "lcsbig-65536x3-ends-conflict".into(),
            old: [1u32, 1].iter().copied().chain((0..65_533u32).map(|i| 10_000 + i)).chain(std::iter::once(2)).collect(),
            new: vec![2, 1, 1],
        },
        LargeInput {
            name: "lcsbig-3x65537-ends-conflict".into(),
            old: vec![2, 1, 1],
            new: [1u32, 1].iter().copied().chain((0..65_534u32).map(|i| 10_000 + i)).chain(std::iter::once(2)).collect(),
        },
        LargeInput {
            name: "lcsbig-70000x4-ends-conflict".into(),
            old: [1u32, 3, 1].iter().copied().chain((0..69_995u32).map(|i| 10_000 + i)).chain([2u32, 3].iter().copied()).collect(),
            new: vec![2, 3, 1, 1],
        },
        LargeInput {
            name: "lcsbig-4100x4100-unrelated".into(),
            old: (0..4100u32).map(|i| 10_000 + i).collect(),
            new: (0..4100u32).map(|i| 20_000 + i).collect(),
        },
        LargeInput {
            name: "lcsbig-11600x11600-unrelated-with-common-ends".into(),
            old: [1u32, 2, 3].iter().copied().chain((0..11_600u32).map(|i| 10_000 + i)).chain([4u32, 5].iter().copied()).collect(),
            new: [1u32, 2, 3].iter().copied().chain((0..11_600u32).map(|i| 30_000 + i)).chain([4u32, 5].iter().copied()).collect(),
        },
        LargeInput {
            name: "lcsbig-700x1600-one-common".into(),
            old: (0..700u32).map(|i| if i == 350 { 7 } else { 10_000 + i }).collect(),
            new: (0..1600u32).map(|i| if i == 900 { 7 } else { 20_000 + i }).collect(),
        },
    ]
}

/// near-identical inputs with more than 2^16 distinct items in total (integer-width limits of
/// id tables); cheap for every algorithm because almost everything is common prefix / suffix
pub fn wide() -> Vec<LargeInput> {
    let old: Vec<u32> = (0..65_535u32).map(|i| 100_000 + i).collect();
    let mut new = old.clone();
    new[0] = 7;
    new[1] = 8;
    let mut new2 = old.clone();
    new2[30_000] = 7;
    new2.insert(60_000, 8);
    new2.push(9);
    vec![
        LargeInput { name: "wide-65535-first-two-replaced".into(), old: old.clone(), new },
        LargeInput { name: "wide-65535-three-edits".into(), old, new: new2 },
    ]
}

/// Mostly unique items with recurring fillers in between (source code: unique lines, '}' and
/// blank lines); every edit touches a FILLER only.
pub fn filler_shapes(_seed: u64) -> Vec<LargeInput> {
    let mut out = vec![];
    for &n in &[60usize, 300, 900] {
        let b: Vec<u32> = (0..n).map(|i| if i % 3 == 2 { 777_000 + ((i / 3) % 2) as u32 } else { 300_000 + i as u32 }).collect();
        let fillers: Vec<usize> = (0..n).filter(|i| i % 3 == 2).collect();
        for &q in &[1usize, 5, 8] {
            let p = fillers[(fillers.len() * q) / 10];
            let mut s = b.clone();
            s[p] = if s[p] == 777_000 { 777_001 } else { 777_000 };
            out.push(LargeInput { name: format!("fillers-{}-swapped@{}", n, p), old: b.clone(), new: s });
            let mut mv = b.clone();
            let f = mv.remove(p);
            mv.insert((p + 3).min(mv.len()), f);
            out.push(LargeInput { name: format!("fillers-{}-moved@{}", n, p), old: b.clone(), new: mv });
            let mut d = b.clone();
            d.remove(p);
            out.push(LargeInput { name: format!("fillers-{}-deleted@{}", n, p), old: b.clone(), new: d.clone() });
            out.push(LargeInput { name: format!("fillers-{}-inserted@{}", n, p), old: d, new: b.clone() });
        }
    }
    out
}

pub fn all(tier: Tier, seed: u64) -> Vec<LargeInput> {
    let mut v = vec![];
    for n in sizes(tier) {
        v.extend(family(n, seed));
    }
    v.extend(asymmetric(seed));
    v.extend(many_unique(seed));
    v.extend(threshold_sweep(seed));
    v.extend(mixed_shapes(seed));
    v.extend(many_hunks(seed));
    v.extend(echo_shapes(seed));
    v.extend(staggered(seed));
    v.extend(filler_shapes(seed));
    v
}

pub fn find(name: &str, seed: u64) -> Option<LargeInput> {
    if name.starts_with("staggered-") {
        return staggered(seed).into_iter().find(|f| f.name == name);
    }
    if name.starts_with("fillers-") {
        return filler_shapes(seed).into_iter().find(|f| f.name == name);
    }
    if name.starts_with("echo-") {
        return echo_shapes(seed).into_iter().find(|f| f.name == name);
    }
    if name.starts_with("hunks-") {
        return many_hunks(seed).into_iter().find(|f| f.name == name);
    }
    if name.starts_with("wide-") {
        return wide().into_iter().find(|f| f.name == name);
    }
    if name.starts_with("thr-") {
        return threshold_sweep(seed).into_iter().find(|f| f.name == name);
    }
    if name.starts_with("mix-") {
        return mixed_shapes(seed).into_iter().find(|f| f.name == name);
    }
    if name.starts_with("lcsbig-") {
        return lcs_big().into_iter().find(|f| f.name == name);
    }
    if name.starts_with("unique-") {
        return many_unique(seed).into_iter().find(|f| f.name == name);
    }
    if name.starts_with("asym-") {
        return asymmetric(seed).into_iter().find(|f| f.name == name);
    }
    let n: usize = name.split('-').filter_map(|p| p.parse::<usize>().ok()).next()?;
    // the size is the first purely numeric dash-separated field
    family(n, seed).into_iter().find(|f| f.name == name)
}

pub fn describe(tier: Tier) -> serde_json::Value {
    serde_json::json!({
        "sizes": sizes(tier),
        "bases": BASES,
        "threshold_sweep": "sizes T-1..T+2 for T in 16,32,64,100,128,256,512,1024 x {distinct, period 3} x 8 edits at the ends / middle",
        "mixed_shapes": "sizes 40,150,400 x {distinct, 5-symbol random, nested repetition} x {three kinds of edits far apart, moved block with a substitution inside, periodic deletes and duplicates, doubled, halved, inner third reversed}",
        "staggered": "staggered repeats (one new unique anchor per nesting level, 30..300 levels) with the first / last item edited",
        "filler_shapes": "mostly unique items with two recurring filler values in between, sizes 60 / 300 / 900; one filler swapped for the other / moved three items down / deleted / inserted, at three positions",
        "echo_shapes": "common head (0..300 items) and tail whose last/first items reappear once in the changed middle of both sides, crossing 1 or 3 unique items",
        "many_hunks": "4500 / 9000 items x {distinct, period 2, runs of three} x {every 3rd duplicated, duplicates removed, every 4th substituted, every 5th deleted + neighbour copied}: thousands of hunks",
        "many_unique": "300/520/700 blocks S_i M_i 0 0 0 vs S_i 0 0 0 M_i; 1100/2100 distinct items with 20 substitutions or two interleaved halves",
        "asymmetric": "side lengths 1x600, 2x530, 10x520, 40x800, 255x300, 257x256, 1x8200, 100x9000 (both orientations): unrelated, subsequence, one common item, 4-symbol random",
        "shapes": "identical; 1/3/8/n/5 evenly spread substitutions, deletions, insertions, duplicated items; block move; block appended; halves swapped; shift by one; versus empty / single; common prefix only; common suffix only; unrelated; reversed; independent random texts over 2/4/16 symbols; shuffled unique anchors with junk",
        "note": "enumerated family, not exhaustive",
    })
}

// ---- running a check over the family -----------------------------------------------------

use crate::engine::{explore, CheckReport, RunCfg};
use crate::oracles::alg_name;
use serde_json::{json, Value};
use similar::Algorithm;

/// table cells LCS would have to fill for this input (after prefix / suffix stripping)
pub fn lcs_cells(inp: &LargeInput) -> u128 {
    let (o, n) = (&inp.old, &inp.new);
    let p = o.iter().zip(n.iter()).take_while(|(a, b)| a == b).count();
    let s = o[p..].iter().rev().zip(n[p..].iter().rev()).take_while(|(a, b)| a == b).count();
    ((o.len() - p - s) as u128) * ((n.len() - p - s) as u128)
}

/// LCS keeps its table in a BTreeMap: only run it where the table stays below ~10^5 cells
/// (the explicit `lcs_big` inputs have empty tables and are run separately)
pub fn lcs_affordable(inp: &LargeInput) -> bool {
    lcs_cells(inp) <= 100_000
}

pub fn case_json(alg: Algorithm, inp: &LargeInput, seed: u64) -> Value {
    json!({"large": inp.name, "seed": seed, "algorithm": alg_name(alg), "old_len": inp.old.len(), "new_len": inp.new.len()})
}

/// Adds the part "large-families" to a report: `f(alg, input)` for every input of the list and
/// every algorithm in `algs`; returns (non-trivial, transitions, fingerprint).
pub fn run_part<F>(cfg: &RunCfg, rep: &mut CheckReport, algs: &[Algorithm], max_size_for: &dyn Fn(Algorithm) -> usize, f: F)
where
    F: Fn(Algorithm, &LargeInput) -> Result<(bool, u64, u64), String> + Sync,
{
    let inputs = all(cfg.tier, cfg.seed);
    let mut work: Vec<(Algorithm, usize)> = vec![];
    for (i, inp) in inputs.iter().enumerate() {
        for &a in algs {
            if a == Algorithm::Lcs {
                if lcs_affordable(inp) {
                    work.push((a, i));
                }
            } else if inp.old.len().max(inp.new.len()) <= max_size_for(a) {
                work.push((a, i));
            }
        }
    }
    let ex = explore(cfg, work.len(), |shard, acc| {
        let (alg, i) = work[shard];
        let inp = &inputs[i];
        match f(alg, inp) {
            Ok((nt, tr, fp)) => {
                if shard % 97 == 0 {
                    acc.sample(case_json(alg, inp, cfg.seed));
                }
                acc.ok(nt, tr, fp);
            }
            Err(e) => acc.violation(|| (case_json(alg, inp, cfg.seed), format!("{} ({} vs {} items): {}", inp.name, inp.old.len(), inp.new.len(), e))),
        }
    });
    rep.part("large-families", describe(cfg.tier), ex);
}

/// Replay helper: resolves a "large" case to (algorithm, input).
pub fn resolve(case: &Value) -> Option<Result<(Algorithm, LargeInput), String>> {
    let name = case.get("large")?.as_str()?;
    let seed = case.get("seed").and_then(|x| x.as_u64()).unwrap_or(0);
    let alg = match super::common::parse_alg(case) {
        Ok(a) => a,
        Err(e) => return Some(Err(e)),
    };
    Some(find(name, seed).map(|i| (alg, i)).ok_or_else(|| format!("unknown large input {}", name)))
}

pub fn embed32(seq: &[u32], off: usize, tail: usize, other: &[u32]) -> Vec<u32> {
    let left = other.first().or(seq.first()).copied().unwrap_or(0);
    let right = other.last().or(seq.last()).copied().unwrap_or(0);
    let mut v = Vec::with_capacity(off + seq.len() + tail);
    v.extend(std::iter::repeat(left).take(off));
    v.extend_from_slice(seq);
    v.extend(std::iter::repeat(right).take(tail));
    v
}
