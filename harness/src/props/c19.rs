//! C19 — Myers and Patience do work proportional to (N+M)*(D+1).

use super::common::*;
use crate::engine::*;
use crate::instr::{cmp_count, Call, Cnt, Rec};
use crate::oracles::*;
use crate::spaces::*;
use serde_json::{json, Value};
use similar::Algorithm;

pub const C_MYERS: f64 = 6.0;
pub const C_PATIENCE: f64 = 8.0;

const WORK_ALGS: [Algorithm; 2] = [Algorithm::Myers, Algorithm::Patience];

fn bound_c(alg: Algorithm) -> f64 {
    if alg == Algorithm::Myers {
        C_MYERS
    } else {
        C_PATIENCE
    }
}

/// (comparisons, D reported, ratio = comparisons / ((N+M+1)(D+1)))
pub fn measure(alg: Algorithm, old: &[Cnt], new: &[Cnt]) -> Result<(u64, usize, f64, u64), String> {
    let (n, m) = (old.len(), new.len());
    let mut rec = Rec::new();
    let mut cmps = 0;
    let r = subject(|| {
        let c0 = cmp_count();
        let r = raw_into(alg, 0, &mut rec, old, 0..n, new, 0..m, None);
        cmps = cmp_count() - c0;
        r
    });
    match r {
        Err(p) => return Err(format!("panic: {}", p)),
        Ok(Err(e)) => return Err(format!("diff returned Err({})", e)),
        Ok(Ok(())) => {}
    }
    let mut d = 0;
    let mut oc = 0;
    let mut nc = 0;
    for c in &rec.calls {
        match *c {
            Call::Del(_, l, _) => {
                d += l;
                oc += l;
            }
            Call::Ins(_, _, l) => {
                d += l;
                nc += l;
            }
            Call::Rep(_, a, _, b) => {
                d += a + b;
                oc += a;
                nc += b;
            }
            Call::Eq(_, _, l) => {
                oc += l;
                nc += l;
            }
            Call::Fin => {}
        }
    }
    if oc != n || nc != m {
        return Err(format!(
            "the reported script covers {} old and {} new items of {} and {}",
            oc, nc, n, m
        ));
    }
    let ratio = cmps as f64 / ((n + m + 1) as f64 * (d + 1) as f64);
    Ok((cmps, d, ratio, calls_fp(&rec.calls)))
}

/// An earlier diff on the same thread with repeated items on one side only (`dups_old`) or the
/// other: whatever it leaves behind must not make the next diff more expensive.
fn prelude(alg: Algorithm, n: usize, dups_old: bool) {
    let a: Vec<Cnt> = (0..n as u32).map(|i| Cnt(i / 2)).collect();
    let b: Vec<Cnt> = (0..(n as u32 + 1) / 2).map(Cnt).collect();
    let mut rec = Rec::new();
    let _ = subject(|| {
        if dups_old {
            raw_into(alg, 0, &mut rec, &a[..], 0..a.len(), &b[..], 0..b.len(), None)
        } else {
            raw_into(alg, 0, &mut rec, &b[..], 0..b.len(), &a[..], 0..a.len(), None)
        }
    });
}

fn check(alg: Algorithm, old: &[Cnt], new: &[Cnt], what: &dyn Fn() -> String) -> Result<(f64, u64, u64, usize), String> {
    // the bound holds for the diff on its own and right after other diffs on this thread
    for history in 1..3 {
        prelude(alg, old.len().max(new.len()).max(4), history == 1);
        let (cmps, d, ratio, _) = measure(alg, old, new).map_err(|e| format!("{}: {}", what(), e))?;
        if ratio > bound_c(alg) {
            return Err(format!(
                "{}: right after a diff with repeated items on the {} side only on the same thread, {} performed {} element comparisons for N={} M={} D={}: {:.1} x (N+M+1)(D+1), bound {} x",
                what(),
                if history == 1 { "old" } else { "new" },
                alg_name(alg),
                cmps,
                old.len(),
                new.len(),
                d,
                ratio,
                bound_c(alg)
            ));
        }
    }
    let (cmps, d, ratio, fp) = measure(alg, old, new).map_err(|e| format!("{}: {}", what(), e))?;
    if ratio > bound_c(alg) {
        return Err(format!(
            "{}: {} performed {} element comparisons for N={} M={} D={}: {:.1} x (N+M+1)(D+1), bound {} x",
            what(),
            alg_name(alg),
            cmps,
            old.len(),
            new.len(),
            d,
            ratio,
            bound_c(alg)
        ));
    }
    Ok((ratio, cmps, fp, d))
}

// ---- large families -------------------------------------------------------------------

#[derive(Clone, Debug)]
pub struct Fam {
    pub name: String,
    pub old: Vec<u32>,
    pub new: Vec<u32>,
}

fn base(kind: usize, n: usize, seed: u64) -> Vec<u32> {
    match kind {
        0 => (0..n as u32).collect(),
        1 => {
            let mut g = Lcg(0xC19 ^ seed);
            (0..n).map(|_| g.below(4) as u32).collect()
        }
        _ => (0..n).map(|i| (i % 7) as u32).collect(),
    }
}

const BASES: [&str; 3] = ["distinct", "lcg4", "period7"];

pub fn families(n: usize, seed: u64) -> Vec<Fam> {
    let mut out = vec![];
    let grid: Vec<usize> = (0..=10).map(|i| ((n - 1) * i) / 10).collect();
    for kind in 0..3 {
        let b = base(kind, n, seed);
        let nm = |s: String| format!("{}-{}-{}", BASES[kind], n, s);
        out.push(Fam { name: nm("identical".into()), old: b.clone(), new: b.clone() });
        out.push(Fam { name: nm("vs-empty".into()), old: b.clone(), new: vec![] });
        out.push(Fam { name: nm("empty-vs".into()), old: vec![], new: b.clone() });
        for &p in &grid {
            let mut s = b.clone();
            s[p] = 999_999;
            out.push(Fam { name: nm(format!("substitute@{}", p)), old: b.clone(), new: s });
            let mut d = b.clone();
            d.remove(p);
            out.push(Fam { name: nm(format!("delete@{}", p)), old: b.clone(), new: d.clone() });
            out.push(Fam { name: nm(format!("insert@{}", p)), old: d, new: b.clone() });
        }
        for &from in &[0, n / 4, n / 2] {
            for &to in &[n / 3, (3 * n) / 4, n - 30] {
                for &len in &[1usize, 5, 20] {
                    if from + len > n {
                        continue;
                    }
                    let mut v = b.clone();
                    let blk: Vec<u32> = v.drain(from..from + len).collect();
                    let to = to.min(v.len());
                    for (i, x) in blk.into_iter().enumerate() {
                        v.insert(to + i, x);
                    }
                    out.push(Fam { name: nm(format!("move-{}-from{}-to{}", len, from, to)), old: b.clone(), new: v });
                }
            }
        }
        let mut rot = b.clone();
        rot.rotate_left(1);
        out.push(Fam { name: nm("shift-by-one".into()), old: b.clone(), new: rot });
        // five scattered edits
        let mut e = b.clone();
        for i in 1..=5 {
            e[(n * i) / 6 - 1] = 888_888 + i as u32;
        }
        e.remove(n / 2);
        out.push(Fam { name: nm("five-edits".into()), old: b.clone(), new: e });
    }
    // mostly unique items with recurring fillers in between (source code: unique lines, '}' and
    // blank lines); the edit touches a FILLER only, so the lengths up to the end of the run of
    // unique anchors stay equal
    {
        let b: Vec<u32> = (0..n).map(|i| if i % 3 == 2 { 777_000 + ((i / 3) % 2) as u32 } else { i as u32 }).collect();
        let fillers: Vec<usize> = (0..n).filter(|i| i % 3 == 2).collect();
        for &q in &[1usize, 2, 5, 8] {
            let p = fillers[(fillers.len() * q) / 10];
            let mut s = b.clone();
            s[p] = if s[p] == 777_000 { 777_001 } else { 777_000 };
            out.push(Fam { name: format!("unique-with-fillers-{}-filler-swapped@{}", n, p), old: b.clone(), new: s });
            let mut mv = b.clone();
            let f = mv.remove(p);
            mv.insert((p + 3).min(mv.len()), f);
            out.push(Fam { name: format!("unique-with-fillers-{}-filler-moved@{}", n, p), old: b.clone(), new: mv });
            let mut d = b.clone();
            d.remove(p);
            out.push(Fam { name: format!("unique-with-fillers-{}-filler-deleted@{}", n, p), old: b.clone(), new: d.clone() });
            out.push(Fam { name: format!("unique-with-fillers-{}-filler-inserted@{}", n, p), old: d, new: b.clone() });
        }
    }
    // expensive shapes, capped at 400 items
    let c = n.min(400);
    out.push(Fam { name: format!("unrelated-{}", c), old: (0..c as u32).collect(), new: (c as u32..2 * c as u32).collect() });
    out.push(Fam { name: format!("reversed-{}", c), old: (0..c as u32).collect(), new: (0..c as u32).rev().collect() });
    let mut g = Lcg(0xABCD ^ seed);
    for i in super::large::staggered(seed) {
        out.push(Fam { name: format!("{}-{}", i.name, n), old: i.old, new: i.new });
    }
    out.push(Fam {
        name: format!("lcg4-unrelated-{}", c),
        old: (0..c).map(|_| g.below(4) as u32).collect(),
        new: (0..c).map(|_| g.below(4) as u32).collect(),
    });
    out
}

fn cnt32(v: &[u32]) -> Vec<Cnt> {
    v.iter().map(|&x| Cnt(x)).collect()
}
fn cnt8(v: &[u8]) -> Vec<Cnt> {
    v.iter().map(|&x| Cnt(x as u32)).collect()
}

pub fn run(cfg: &RunCfg) -> CheckReport {
    let mut rep = CheckReport::new(
        "exploration",
        "part 'small': every (algorithm in {Myers, Patience}, old, new) of the listed scopes, comparisons counted by the element type's PartialEq, D = deletes+inserts of the script the algorithm reports; bound comparisons <= c*(N+M+1)*(D+1) with c = 6 (Myers) / 8 (Patience). Non-trivial: N,M >= 2 and D >= 1. part 'families': an enumerated (NOT exhaustive) list of large inputs at the listed sizes: 3 base texts (all-distinct, 4-symbol pseudo-random, period 7) x {identical, versus empty, single substitution / deletion / insertion at 11 grid positions, 27 block moves, shift by one, five scattered edits} plus unrelated / reversed / random-unrelated capped at 400 items. Cases distinct by construction.",
    );
    rep.assume("work = number of PartialEq calls on items (hashing in Patience is not counted); constants carry >= 4x slack over the measured maxima reported under 'maxima'");
    rep.assume("every measurement is taken three times: right after a diff of a same-sized input with repeated items on the old side only, right after one with repeats on the new side only (same thread), and after the measured diff itself");
    rep.assume("the statement's large-size clause ('regardless of their length') is decided on enumerated families only; all pairs of that size are not enumerable");
    let space = PairSpace::new(match cfg.tier {
        Tier::Quick => vec![Scope::P { k: 3, n: 6 }, Scope::P { k: 2, n: 8 }, Scope::R { l: 9 }],
        Tier::Thorough => vec![
            Scope::P { k: 3, n: 7 },
            Scope::P { k: 2, n: 10 },
            Scope::P { k: 4, n: 6 },
            Scope::R { l: 11 },
        ],
    });
    let ex = explore(cfg, space.nshards(), |shard, acc| {
        space.for_each(shard, |old, new| {
            let (o, n) = (cnt8(old), cnt8(new));
            for &alg in WORK_ALGS.iter() {
                match check(alg, &o, &n, &|| format!("old={:?} new={:?}", old, new)) {
                    Ok((ratio, cmps, fp, d)) => {
                        if acc.want_sample() {
                            acc.sample(seq_case(alg, old, new));
                        }
                        let name = if alg == Algorithm::Myers {
                            "max_ratio_myers"
                        } else {
                            "max_ratio_patience"
                        };
                        acc.max(name, ratio, || format!("old={:?} new={:?} comparisons={} D={}", old, new, cmps, d));
                        acc.ok(old.len() >= 2 && new.len() >= 2 && d >= 1, cmps, fp);
                    }
                    Err(e) => acc.violation(|| (seq_case(alg, old, new), e)),
                }
                if acc.stop() {
                    return false;
                }
            }
            true
        });
    });
    rep.part("small", json!({"scopes": space.describe(), "c_myers": C_MYERS, "c_patience": C_PATIENCE}), ex);
    if rep.has_violation() {
        return rep;
    }
    let sizes: Vec<usize> = cfg.tier.pick(vec![200, 1000], vec![200, 1000, 3000, 10000]);
    let mut fams: Vec<(Algorithm, usize, Fam)> = vec![];
    for &n in &sizes {
        for f in families(n, cfg.seed) {
            for &alg in WORK_ALGS.iter() {
                fams.push((alg, n, f.clone()));
            }
        }
    }
    let ex = explore(cfg, fams.len(), |shard, acc| {
        let (alg, n, f) = &fams[shard];
        let (o, nn) = (cnt32(&f.old), cnt32(&f.new));
        match check(*alg, &o, &nn, &|| f.name.clone()) {
            Ok((ratio, cmps, fp, d)) => {
                if shard % 61 == 0 {
                    acc.sample(json!({"algorithm": alg_name(*alg), "family": f.name, "comparisons": cmps, "D": d, "ratio": ratio}));
                }
                let name = if *alg == Algorithm::Myers {
                    "max_ratio_myers"
                } else {
                    "max_ratio_patience"
                };
                acc.max(name, ratio, || format!("{} comparisons={} D={}", f.name, cmps, d));
                acc.ok(d >= 1, cmps, fp);
            }
            Err(e) => acc.violation(|| {
                (
                    json!({"algorithm": alg_name(*alg), "family": f.name, "size": n, "seed": cfg.seed}),
                    e,
                )
            }),
        }
    });
    rep.part("families", json!({"sizes": sizes, "bases": BASES}), ex);
    rep
}

pub fn replay(case: &Value) -> Result<String, String> {
    let alg = parse_alg(case)?;
    if let Some(name) = case.get("family").and_then(|x| x.as_str()) {
        let size = parse_u64(case, "size")? as usize;
        let seed = parse_u64(case, "seed")?;
        for f in families(size, seed) {
            if f.name == name {
                let (o, n) = (cnt32(&f.old), cnt32(&f.new));
                return check(alg, &o, &n, &|| f.name.clone()).map(|r| format!("holds; ratio {:.3}", r.0));
            }
        }
        return Err(format!("unknown family {}", name));
    }
    let old = parse_seq(case, "old")?;
    let new = parse_seq(case, "new")?;
    check(alg, &cnt8(&old), &cnt8(&new), &|| "replay".to_string()).map(|r| format!("holds; ratio {:.3}", r.0))
}
