//! C05 — rendered unified diffs are well-formed and apply exactly.
//!
//! Oracle: an independent, structure-driven unified-diff parser and a strict patch applier.

use super::common::*;
use crate::engine::*;
use crate::oracles::*;
use serde_json::{json, Value};
use similar::{Algorithm, DiffableStr, TextDiff};
use std::collections::BTreeSet;

const MARKER: &[u8] = b"\\ No newline at end of file\n";
const HDR_A: &str = "old.txt";
const HDR_B: &str = "new\tfile";

/// reference line splitter: a line ends after LF, CRLF or a lone CR
fn split_lines(b: &[u8]) -> Vec<&[u8]> {
    let mut out = vec![];
    let mut last = 0;
    let mut i = 0;
    while i < b.len() {
        if b[i] == b'\n' {
            out.push(&b[last..=i]);
            last = i + 1;
        } else if b[i] == b'\r' {
            if i + 1 < b.len() && b[i + 1] == b'\n' {
                i += 1;
            }
            out.push(&b[last..=i]);
            last = i + 1;
        }
        i += 1;
    }
    if last < b.len() {
        out.push(&b[last..]);
    }
    out
}

fn terminated(l: &[u8]) -> bool {
    matches!(l.last(), Some(b'\n') | Some(b'\r'))
}

fn lossy(b: &[u8]) -> String {
    format!("{:?}", String::from_utf8_lossy(b))
}

#[derive(Debug)]
struct Hunk<'a> {
    a: usize,
    b: usize,
    c: usize,
    d: usize,
    /// (tag, content as in the text, i.e. without the newline added for an unterminated line)
    body: Vec<(u8, Vec<u8>, bool /* marked as lacking a newline */)>,
    header_line: &'a [u8],
}

fn parse_range(s: &str) -> Option<(usize, usize, bool)> {
    // "A" (count 1) or "A,B"
    if let Some((a, b)) = s.split_once(',') {
        if a.is_empty() || b.is_empty() || !a.bytes().all(|c| c.is_ascii_digit()) || !b.bytes().all(|c| c.is_ascii_digit()) {
            return None;
        }
        Some((a.parse().ok()?, b.parse().ok()?, true))
    } else {
        if s.is_empty() || !s.bytes().all(|c| c.is_ascii_digit()) {
            return None;
        }
        Some((s.parse().ok()?, 1, false))
    }
}

fn parse_header(line: &[u8]) -> Result<(usize, usize, usize, usize), String> {
    let s = std::str::from_utf8(line).map_err(|_| "hunk header is not UTF-8".to_string())?;
    let inner = s
        .strip_prefix("@@ -")
        .and_then(|r| r.strip_suffix(" @@\n"))
        .ok_or_else(|| format!("malformed hunk header {:?}", s))?;
    let (o, n) = inner
        .split_once(" +")
        .ok_or_else(|| format!("malformed hunk header {:?}", s))?;
    let (a, b, explicit_b) = parse_range(o).ok_or_else(|| format!("malformed old range in {:?}", s))?;
    let (c, d, explicit_d) = parse_range(n).ok_or_else(|| format!("malformed new range in {:?}", s))?;
    // the single-number shorthand means a count of exactly one; "x,1" is not produced by
    // the format but is still well-formed, so it is accepted
    let _ = (explicit_b, explicit_d);
    Ok((a, b, c, d))
}

fn parse<'a>(out: &'a [u8], header: bool) -> Result<Vec<Hunk<'a>>, String> {
    let lines = split_lines(out);
    let mut i = 0;
    let mut hunks = vec![];
    if lines.is_empty() {
        return Ok(hunks);
    }
    if header {
        // the statement does not fix the text of the file header: two lines, "--- ..." and
        // "+++ ...", before the first hunk
        if lines.len() < 2 || !lines[0].starts_with(b"--- ") || !lines[1].starts_with(b"+++ ") {
            return Err(format!(
                "output does not start with a file header: {}",
                lossy(out)
            ));
        }
        if !lines[0].ends_with(format!("{}\n", HDR_A).as_bytes()) || !lines[1].ends_with(format!("{}\n", HDR_B).as_bytes()) {
            return Err(format!("file header does not carry the configured names: {}", lossy(out)));
        }
        i = 2;
        if i == lines.len() {
            return Err("file header without any hunk".into());
        }
    }
    while i < lines.len() {
        let hl = lines[i];
        if hl.first() != Some(&b'@') {
            return Err(format!(
                "expected a hunk header at output line {}, found {}",
                i,
                lossy(hl)
            ));
        }
        let (a, b, c, d) = parse_header(hl)?;
        i += 1;
        let mut body = vec![];
        let (mut oc, mut nc) = (0, 0);
        while oc < b || nc < d {
            if i >= lines.len() {
                return Err(format!(
                    "hunk {} announces {} old and {} new lines but its body has only {} and {}",
                    lossy(hl),
                    b,
                    d,
                    oc,
                    nc
                ));
            }
            let l = lines[i];
            let tag = l[0];
            match tag {
                b' ' => {
                    oc += 1;
                    nc += 1;
                }
                b'-' => oc += 1,
                b'+' => nc += 1,
                _ => {
                    return Err(format!(
                        "hunk {} announces {} old and {} new lines but after {} and {} its body is followed by {}",
                        lossy(hl),
                        b,
                        d,
                        oc,
                        nc,
                        lossy(l)
                    ))
                }
            }
            if oc > b || nc > d {
                return Err(format!(
                    "body of hunk {} has more lines than its header announces",
                    lossy(hl)
                ));
            }
            i += 1;
            let mut content = l[1..].to_vec();
            let mut marked = false;
            if i < lines.len() && lines[i] == MARKER {
                marked = true;
                i += 1;
                if content.last() != Some(&b'\n') {
                    return Err("missing-newline marker after a line that does not end in LF".into());
                }
                content.pop();
            }
            body.push((tag, content, marked));
        }
        // a marker cannot start a hunk and body lines cannot follow a complete body
        if i < lines.len() && lines[i].first() != Some(&b'@') {
            return Err(format!(
                "hunk {} announces {} old and {} new lines but more body follows: {}",
                lossy(hl),
                b,
                d,
                lossy(lines[i])
            ));
        }
        hunks.push(Hunk {
            a,
            b,
            c,
            d,
            body,
            header_line: hl,
        });
    }
    Ok(hunks)
}

/// strict application + all structural clauses
fn apply_strict(hunks: &[Hunk], old: &[u8], new: &[u8], radius: usize) -> Result<(), String> {
    let ol = split_lines(old);
    let mut result: Vec<u8> = vec![];
    let mut out_lines = 0usize;
    let mut pos = 0usize; // next old line not yet copied
    for h in hunks {
        let hs = lossy(h.header_line);
        let old_start = if h.b == 0 { h.a } else { h.a.checked_sub(1).ok_or(format!("{}: old start 0 with a non-empty range", hs))? };
        let new_start = if h.d == 0 { h.c } else { h.c.checked_sub(1).ok_or(format!("{}: new start 0 with a non-empty range", hs))? };
        if old_start < pos {
            return Err(format!(
                "{}: hunk starts at old line {} but the previous hunk already consumed up to line {} (hunks must be increasing and non-overlapping)",
                hs, old_start, pos
            ));
        }
        if old_start + h.b > ol.len() {
            return Err(format!("{}: old range runs past the end of the old text ({} lines)", hs, ol.len()));
        }
        for l in &ol[pos..old_start] {
            result.extend_from_slice(l);
            out_lines += 1;
        }
        pos = old_start;
        if new_start != out_lines {
            return Err(format!(
                "{}: new start names line {} (0-based) but the output has {} lines at this point",
                hs, new_start, out_lines
            ));
        }
        // structure of the body
        if !h.body.iter().any(|x| x.0 != b' ') {
            return Err(format!("{}: hunk without a change", hs));
        }
        let lead = h.body.iter().take_while(|x| x.0 == b' ').count();
        let trail = h.body.iter().rev().take_while(|x| x.0 == b' ').count();
        if lead > radius || trail > radius {
            return Err(format!(
                "{}: {} leading / {} trailing context lines with radius {}",
                hs, lead, trail, radius
            ));
        }
        let mut seen_plus = false;
        for (tag, content, marked) in &h.body {
            match *tag {
                b' ' => seen_plus = false,
                b'-' => {
                    if seen_plus {
                        return Err(format!("{}: a deletion follows an insertion inside one run of changes", hs));
                    }
                }
                _ => seen_plus = true,
            }
            if *marked == terminated(content) {
                return Err(format!(
                    "{}: line {} is {} a line break but {} marked with '\\ No newline at end of file'",
                    hs,
                    lossy(content),
                    if terminated(content) { "terminated by" } else { "lacking" },
                    if *marked { "is" } else { "is not" }
                ));
            }
            if *tag != b'+' {
                if pos >= ol.len() || ol[pos] != &content[..] {
                    return Err(format!(
                        "{}: {} line {} does not match old line {} ({})",
                        hs,
                        if *tag == b' ' { "context" } else { "'-'" },
                        lossy(content),
                        pos + 1,
                        ol.get(pos).map(|l| lossy(l)).unwrap_or_else(|| "<past the end>".into())
                    ));
                }
                pos += 1;
            }
            if *tag != b'-' {
                result.extend_from_slice(content);
                out_lines += 1;
            }
        }
    }
    for l in &ol[pos..] {
        result.extend_from_slice(l);
    }
    if result != new {
        return Err(format!(
            "applying the hunks to the old text yields {} instead of the new text {}",
            lossy(&result),
            lossy(new)
        ));
    }
    Ok(())
}

struct Rendered {
    display: String,
    written: Vec<u8>,
    /// the same diff rendered hunk by hunk (UnifiedDiffHunk Display / to_writer, concatenated)
    hunkwise: Option<(String, Vec<u8>)>,
    /// the diff's ops are a valid script of the token slices (consuming ranges only)
    ops_valid: Result<(), String>,
}

/// Byte sink that implements only `write` and `flush`, takes at most `cap` bytes per call and
/// optionally answers `Interrupted` on every other call.
struct Sink {
    out: Vec<u8>,
    cap: usize,
    interrupt: bool,
    calls: usize,
}

impl Sink {
    fn new(cap: usize, interrupt: bool) -> Sink {
        Sink { out: vec![], cap, interrupt, calls: 0 }
    }
}

/// Byte sink with a `write_vectored` of its own that gathers the buffers but takes at most `cap`
/// bytes per call (a socket, a pipe): a short count may end inside any of the buffers.
struct GatherSink {
    out: Vec<u8>,
    cap: usize,
}

impl std::io::Write for GatherSink {
    fn write(&mut self, buf: &[u8]) -> std::io::Result<usize> {
        let n = buf.len().min(self.cap);
        self.out.extend_from_slice(&buf[..n]);
        Ok(n)
    }
    fn write_vectored(&mut self, bufs: &[std::io::IoSlice<'_>]) -> std::io::Result<usize> {
        let mut left = self.cap;
        let mut n = 0;
        for b in bufs {
            let k = b.len().min(left);
            self.out.extend_from_slice(&b[..k]);
            n += k;
            left -= k;
            if left == 0 {
                break;
            }
        }
        Ok(n)
    }
    fn flush(&mut self) -> std::io::Result<()> {
        Ok(())
    }
}

impl std::io::Write for Sink {
    fn write(&mut self, buf: &[u8]) -> std::io::Result<usize> {
        self.calls += 1;
        if self.interrupt && self.calls % 2 == 1 {
            return Err(std::io::Error::new(std::io::ErrorKind::Interrupted, "interrupted"));
        }
        let n = buf.len().min(self.cap);
        self.out.extend_from_slice(&buf[..n]);
        Ok(n)
    }
    fn flush(&mut self) -> std::io::Result<()> {
        Ok(())
    }
}

fn render<T: DiffableStr + ?Sized>(
    alg: Algorithm,
    old: &T,
    new: &T,
    radius: usize,
    header: bool,
    repair: bool,
) -> Result<(Rendered, u64), String> {
    let mut swaps = 0;
    let r = subject(|| {
        similar::verif::take_swaps();
        similar::verif::set_swap_repair(repair);
        let diff = TextDiff::configure().algorithm(alg).diff_lines(old, new);
        swaps = similar::verif::take_swaps();
        let ops_valid = validate_ops(
            diff.ops(),
            diff.old_slices(),
            0..diff.old_slices().len(),
            diff.new_slices(),
            0..diff.new_slices().len(),
            false,
        )
        .map(|_| ());
        let mut u = diff.unified_diff();
        u.context_radius(radius);
        if header {
            u.header(HDR_A, HDR_B);
        }
        let display = u.to_string();
        let mut written = vec![];
        u.to_writer(&mut written).unwrap();
        // the same formatter object rendered again, and its hunks iterated again, must give
        // the same result (no state carried from one rendering to the next)
        let mut written2 = vec![];
        u.to_writer(&mut written2).unwrap();
        if u.to_string() != display || written2 != written || u.iter_hunks().count() != u.iter_hunks().count() {
            panic!("rendering the same UnifiedDiff object twice gives different results");
        }
        // hunks and their changes however the iterators are consumed
        if alg == Algorithm::Myers && !header && modes_wanted(old.as_bytes().len() + new.as_bytes().len(), 8) {
            if let Err(e) = consumption_modes(&|| "UnifiedDiff::iter_hunks".to_string(), || u.iter_hunks(), |h| (h.to_string(), h.ops().to_vec())) {
                panic!("{}", e);
            }
            if let Some(h) = u.iter_hunks().next() {
                if let Err(e) = consumption_modes(&|| "UnifiedDiffHunk::iter_changes".to_string(), || h.iter_changes(), |c| (c.tag(), c.old_index(), c.new_index(), c.value().as_bytes().as_ptr() as usize, c.value().as_bytes().len())) {
                    panic!("{}", e);
                }
            }
        }
        // environment answers of the byte sink: a writer that takes only a few bytes per call
        // (and implements nothing but write/flush), the same behind a BufWriter and behind a
        // trait object, and one that answers Interrupted on every other call
        // (sinks with the header rendered, histories without, both on the Myers diff only: the
        // formatter does not know which algorithm produced the ops)
        for cap in if header && alg == Algorithm::Myers { vec![1usize, 3, usize::MAX] } else { vec![] } {
            let mut sink = Sink::new(cap, false);
            if let Err(e) = u.to_writer(&mut sink) {
                panic!("to_writer into a writer accepting {} byte(s) per call fails: {}", cap, e);
            }
            if sink.out != written {
                panic!(
                    "to_writer into a writer accepting {} byte(s) per call emits {} but into a Vec {}",
                    cap,
                    lossy(&sink.out),
                    lossy(&written)
                );
            }
        }
        if header && alg == Algorithm::Myers {
            for cap in [1usize, 2, 3, 5] {
                let mut g = GatherSink { out: vec![], cap };
                if let Err(e) = u.to_writer(&mut g) {
                    panic!("to_writer into a gathering writer accepting {} byte(s) per call fails: {}", cap, e);
                }
                if g.out != written {
                    panic!(
                        "to_writer into a writer with its own write_vectored accepting {} byte(s) per call emits {} but into a Vec {}",
                        cap,
                        lossy(&g.out),
                        lossy(&written)
                    );
                }
            }
            // a copy of the configured formatter, if the type can be copied at all
            #[allow(noop_method_call, clippy::clone_on_copy)]
            let copy = (&u).clone();
            if copy.to_string() != display {
                panic!("a clone of the configured UnifiedDiff renders differently from the original");
            }
            let mut sink = Sink::new(2, false);
            {
                let mut bw = std::io::BufWriter::with_capacity(5, &mut sink);
                u.to_writer(&mut bw).unwrap();
                std::io::Write::flush(&mut bw).unwrap();
            }
            let mut sink2 = Sink::new(usize::MAX, false);
            {
                let dynw: &mut dyn std::io::Write = &mut sink2;
                u.to_writer(dynw).unwrap();
            }
            if sink.out != written || sink2.out != written {
                panic!(
                    "to_writer through a BufWriter / a trait object emits {} / {} but into a Vec {}",
                    lossy(&sink.out),
                    lossy(&sink2.out),
                    lossy(&written)
                );
            }
            let mut sink3 = Sink::new(4, true);
            match u.to_writer(&mut sink3) {
                Ok(()) => {
                    if sink3.out != written {
                        panic!("to_writer into a writer that is interrupted on every other call emits {} but into a Vec {}", lossy(&sink3.out), lossy(&written));
                    }
                }
                Err(e) => {
                    if e.kind() != std::io::ErrorKind::Interrupted || !written.starts_with(&sink3.out) {
                        panic!("to_writer into a writer that is interrupted on every other call: {} after emitting {}", e, lossy(&sink3.out));
                    }
                }
            }
        }
        // operation sequences on one formatter: used with other settings first, then set to the
        // requested ones
        for other in [radius.saturating_add(1), radius.saturating_sub(1), 0] {
            if other == radius || header || alg != Algorithm::Myers {
                continue;
            }
            let mut h = diff.unified_diff();
            h.context_radius(other);
            h.missing_newline_hint(false);
            let _ = h.to_string();
            let _ = h.iter_hunks().count();
            h.header("x", "y");
            let _ = h.to_string();
            h.missing_newline_hint(true);
            h.context_radius(radius);
            if header {
                h.header(HDR_A, HDR_B);
                if h.to_string() != display {
                    panic!("a UnifiedDiff first used with radius {} and other settings, then set to radius {}, renders differently from a fresh one", other, radius);
                }
            } else {
                // a header cannot be unset: compare the hunks
                let a: Vec<String> = h.iter_hunks().map(|x| x.to_string()).collect();
                let b: Vec<String> = u.iter_hunks().map(|x| x.to_string()).collect();
                if a != b {
                    panic!("a UnifiedDiff first used with radius {} and other settings, then set to radius {}, yields different hunks from a fresh one", other, radius);
                }
            }
        }
        let hunkwise = if !header {
            let mut d = String::new();
            let mut w = vec![];
            for h in u.iter_hunks() {
                d.push_str(&h.to_string());
                h.to_writer(&mut w).unwrap();
            }
            Some((d, w))
        } else {
            None
        };
        Rendered { display, written, hunkwise, ops_valid }
    })
    .map_err(|p| format!("panic: {}", p))?;
    Ok((r, swaps))
}

fn check_rendering(r: &Rendered, old: &[u8], new: &[u8], radius: usize, header: bool, utf8: bool) -> Result<u64, String> {
    if old == new {
        if !r.display.is_empty() || !r.written.is_empty() {
            return Err(format!(
                "equal inputs render as {:?} / {} instead of the empty string",
                r.display,
                lossy(&r.written)
            ));
        }
        return Ok(0);
    }
    let hunks = parse(&r.written, header).map_err(|e| format!("to_writer output {}: {}", lossy(&r.written), e))?;
    if hunks.is_empty() {
        return Err("different inputs render as the empty string".into());
    }
    apply_strict(&hunks, old, new, radius)
        .map_err(|e| format!("to_writer output {}: {}", lossy(&r.written), e))?;
    // Display vs writer
    if utf8 {
        if r.display.as_bytes() != &r.written[..] {
            return Err(format!(
                "Display {:?} differs from the to_writer output {} on UTF-8 input",
                r.display,
                lossy(&r.written)
            ));
        }
    } else if r.display != String::from_utf8_lossy(&r.written) {
        return Err(format!(
            "Display {:?} is not the lossy decoding of the to_writer output {}",
            r.display,
            lossy(&r.written)
        ));
    }
    let mut fp = Fp::new();
    for h in &hunks {
        fp.add((h.a + 64 * (h.b + 64 * (h.c + 64 * h.d))) as u64);
        fp.add(h.body.len() as u64);
    }
    Ok(fp.0)
}

pub enum Verdict {
    Ok(bool, u64, u64),
    Kf1(String),
    Fail(String),
}

pub const RADII: [usize; 6] = [0, 1, 2, 3, 5, usize::MAX];

/// every configuration of one text pair
pub fn check_pair(old: &[u8], new: &[u8], radii: &[usize]) -> Verdict {
    let as_str = match (std::str::from_utf8(old), std::str::from_utf8(new)) {
        (Ok(a), Ok(b)) => Some((a, b)),
        _ => None,
    };
    let mut fp = Fp::new();
    let mut n = 0;
    let mut nontrivial = false;
    let mut kf1: Option<String> = None;
    for &alg in ALGS.iter() {
        for &radius in radii {
            for header in [false, true] {
                for kind in 0..2 {
                    if kind == 0 && as_str.is_none() {
                        continue;
                    }
                    let run = |repair: bool| -> Result<(u64, u64), String> {
                        let (r, swaps) = if kind == 0 {
                            let (a, b) = as_str.unwrap();
                            render::<str>(alg, a, b, radius, header, repair)?
                        } else {
                            render::<[u8]>(alg, old, new, radius, header, repair)?
                        };
                        let f = check_rendering(&r, old, new, radius, header, as_str.is_some())?;
                        if let Some((d, w)) = &r.hunkwise {
                            // the hunks rendered one by one are a rendering too: same oracle
                            let hr = Rendered { display: d.clone(), written: w.clone(), hunkwise: None, ops_valid: Ok(()) };
                            check_rendering(&hr, old, new, radius, false, as_str.is_some())
                                .map_err(|e| format!("hunks rendered one by one (UnifiedDiffHunk Display / to_writer): {}", e))?;
                        }
                        if kind == 0 {
                            // the one-call helper renders a unified diff as well: same oracle
                            let (a, b) = as_str.unwrap();
                            let hdr = if header { Some((HDR_A, HDR_B)) } else { None };
                            let s = subject(|| {
                                similar::verif::set_swap_repair(repair);
                                similar::udiff::unified_diff(alg, a, b, radius, hdr)
                            })
                            .map_err(|p| format!("udiff::unified_diff: panic: {}", p))?;
                            let hr = Rendered {
                                written: s.as_bytes().to_vec(),
                                display: s,
                                hunkwise: None,
                                ops_valid: Ok(()),
                            };
                            check_rendering(&hr, old, new, radius, header, true)
                                .map_err(|e| format!("udiff::unified_diff: {}", e))?;
                        }
                        Ok((f, swaps))
                    };
                    match run(false) {
                        Ok((f, _)) => {
                            fp.add(f);
                            n += 1;
                            if f != 0 {
                                nontrivial = true;
                            }
                        }
                        Err(e) => {
                            let what = format!(
                                "{} radius {} header {} {}: {}",
                                alg_name(alg),
                                radius,
                                header,
                                if kind == 0 { "str" } else { "[u8]" },
                                e
                            );
                            // KF1 only leaves carried indices stale; if the ops themselves are
                            // not a valid script this is a different defect
                            let valid = if kind == 0 {
                                let (a, b) = as_str.unwrap();
                                render::<str>(alg, a, b, radius, header, false).map(|r| r.0.ops_valid)
                            } else {
                                render::<[u8]>(alg, old, new, radius, header, false).map(|r| r.0.ops_valid)
                            };
                            match valid {
                                Ok(Ok(())) => {}
                                Ok(Err(v)) => return Verdict::Fail(format!("{} [ops are not a valid script: {}]", what, v)),
                                Err(v) => return Verdict::Fail(format!("{} [{}]", what, v)),
                            }
                            match run(true) {
                                Ok((_, swaps)) if swaps > 0 => {
                                    if kf1.is_none() {
                                        kf1 = Some(what);
                                    }
                                }
                                _ => return Verdict::Fail(what),
                            }
                        }
                    }
                }
            }
        }
    }
    match kf1 {
        Some(e) => Verdict::Kf1(e),
        None => Verdict::Ok(nontrivial, n, fp.0),
    }
}

/// all texts made of up to `max_lines` terminated lines (content x terminator) plus an
/// optional unterminated last line; deduplicated (CR followed by LF merges two tokens)
pub fn line_texts(contents: &[&[u8]], terms: &[&[u8]], max_lines: usize, lasts: &[&[u8]]) -> Vec<Vec<u8>> {
    let mut tokens: Vec<Vec<u8>> = vec![];
    for c in contents {
        for t in terms {
            let mut v = c.to_vec();
            v.extend_from_slice(t);
            tokens.push(v);
        }
    }
    let mut set = BTreeSet::new();
    let total = super::c06::count_words(tokens.len(), max_lines);
    let mut w = vec![];
    for idx in 0..total {
        super::c06::nth_word(tokens.len(), idx, &mut w);
        let mut t = vec![];
        for &i in &w {
            t.extend_from_slice(&tokens[i]);
        }
        set.insert((t.len(), t.clone()));
        for l in lasts {
            let mut t2 = t.clone();
            t2.extend_from_slice(l);
            set.insert((t2.len(), t2));
        }
    }
    set.into_iter().map(|x| x.1).collect()
}

fn text_spaces(tier: Tier) -> Vec<(&'static str, Vec<Vec<u8>>)> {
    let q = tier == Tier::Quick;
    vec![
        (
            "plain-lf",
            line_texts(&[b"a", b"b"], &[b"\n"], if q { 5 } else { 7 }, &[b"a", b"b"]),
        ),
        (
            "terminators",
            line_texts(&[b"a", b""], &[b"\n", b"\r\n", b"\r"], if q { 3 } else { 4 }, &[b"a"]),
        ),
        (
            "adversarial-contents",
            line_texts(
                &[b"a", b"-- x", b"@@ -1 +1 @@", b"\\ No newline at end of file", b"++ b"],
                &[b"\n"],
                if q { 2 } else { 3 },
                &[b"-- x", b"\\ No newline at end of file"],
            ),
        ),
        (
            "invalid-utf8",
            line_texts(&[b"a", b"\xff", b"\xe2\x82"], &[b"\n"], if q { 3 } else { 4 }, &[b"\xff", b"a"]),
        ),
        (
            "three-symbols",
            line_texts(&[b"a", b"b", b"c"], &[b"\n"], if q { 4 } else { 5 }, &[b"c"]),
        ),
    ]
}

fn text_case(old: &[u8], new: &[u8]) -> Value {
    json!({"old": old, "new": new, "old_lossy": String::from_utf8_lossy(old), "new_lossy": String::from_utf8_lossy(new)})
}

pub fn run(cfg: &RunCfg) -> CheckReport {
    let mut rep = CheckReport::new(
        "exploration",
        "every ordered pair of line texts of each listed text family (all sequences of up to L lines over content x terminator alphabets, plus an optional unterminated last line; texts deduplicated) x 3 algorithms x context radius {0,1,2,3,5,usize::MAX} x file header {off,on} x {str (when UTF-8), [u8]} x {Display, to_writer}; one case = one text pair with all its configurations. Oracle: independent structure-driven parser (header counts drive the body length) + strict applier (positions, counts, context and '-' lines byte-equal to the old text, result byte-equal to the new text, marker exactly on unterminated lines, <= radius edge context, deletions before insertions, equal inputs => empty output, Display vs writer). Non-trivial: texts differ. A failing configuration is re-rendered with the H2 swap repair armed: passes then and >= 1 compaction swap happened => known finding KF1. Pairs are distinct within a family; families overlap only in a handful of short texts.",
    );
    rep.assume("the parser accepts exactly the format the statement describes (file header only before the first hunk; '@' starts a hunk header; ' ', '-', '+' start body lines; the marker line belongs to the preceding body line)");
    rep.assume("H2 attribution hook; KF1 listed in known_findings.json");
    rep.assume("per rendering on the Myers diff: byte sinks answering with short writes (1 / 3 / all bytes per call, BufWriter over a 2-byte sink, trait object, Interrupted on every other call), one formatter object used with other settings first and then set to the requested ones, the same object rendered twice; consumption modes of iter_hunks / hunk.iter_changes in the quick tier on text pairs of up to 8 bytes, thorough 3 bytes more");
    let kf = KnownFindings::load(&cfg.verif_dir);
    let kf1_listed = kf.listed("C05", "KF1");
    let radii: Vec<usize> = RADII.to_vec();
    for (name, texts) in text_spaces(cfg.tier) {
        let ex = explore(cfg, texts.len(), |shard, acc| {
            let old = &texts[shard];
            for new in &texts {
                match check_pair(old, new, &radii) {
                    Verdict::Ok(nt, n, fp) => {
                        if acc.want_sample() {
                            acc.sample(text_case(old, new));
                        }
                        acc.count("renderings", n * 2);
                        acc.ok(nt, n, fp);
                    }
                    Verdict::Kf1(e) if kf1_listed => acc.known("KF1", || {
                        format!("old={} new={}: {}", lossy(old), lossy(new), e)
                    }),
                    Verdict::Kf1(e) | Verdict::Fail(e) => acc.violation(|| (text_case(old, new), e)),
                }
                if acc.stop() {
                    return;
                }
            }
        });
        rep.part(name, json!({"texts": texts.len(), "radii": radii}), ex);
        if rep.has_violation() {
            return rep;
        }
    }
    // large line texts (one family item per line; every other input loses its final newline)
    let mut inputs: Vec<_> = super::large::all(cfg.tier, cfg.seed)
        .into_iter()
        .filter(|i| i.old.len().max(i.new.len()) <= 300)
        .collect();
    // one 65535-line pair with more than 2^16 distinct lines in total (tiny changed middle)
    inputs.extend(super::large::wide().into_iter().filter(|i| super::large::lcs_affordable(i)));
    let ex = explore(cfg, inputs.len(), |shard, acc| {
        let inp = &inputs[shard];
        match large_verdict(inp) {
            Verdict::Ok(nt, n, fp) => {
                if shard % 97 == 0 {
                    acc.sample(super::large::case_json(Algorithm::Myers, inp, cfg.seed));
                }
                acc.ok(nt, n, fp)
            }
            Verdict::Kf1(e) if kf1_listed => acc.known("KF1", || format!("{}: {}", inp.name, e)),
            Verdict::Kf1(e) | Verdict::Fail(e) => acc.violation(|| {
                (
                    super::large::case_json(Algorithm::Myers, inp, cfg.seed),
                    format!("{}: {}", inp.name, e),
                )
            }),
        }
    });
    rep.part("large-families", super::large::describe(cfg.tier), ex);
    if rep.has_violation() {
        return rep;
    }
    // long texts with several words per line, CRLF / CR terminators and missing final newlines
    let pairs = super::richtext::long_pairs(&super::large::all(cfg.tier, cfg.seed), cfg.tier.pick(130, 300));
    let ex = explore(cfg, pairs.len(), |shard, acc| {
        let (name, old, new) = &pairs[shard];
        match check_pair(old.as_bytes(), new.as_bytes(), &[0, 1, 3]) {
            Verdict::Ok(nt, n, fp) => {
                if shard % 97 == 0 {
                    acc.sample(json!({"long_text_pair": name}));
                }
                acc.ok(nt, n, fp)
            }
            Verdict::Kf1(e) if kf1_listed => acc.known("KF1", || format!("{}: {}", name, e)),
            Verdict::Kf1(e) | Verdict::Fail(e) => {
                acc.violation(|| (text_case(old.as_bytes(), new.as_bytes()), format!("{}: {}", name, e)))
            }
        }
    });
    rep.part("long-texts", json!({"pairs": pairs.len(), "radii": [0, 1, 3], "note": "enumerated family"}), ex);
    rep
}

/// large line texts (one family item per line); all three algorithms are exercised inside
/// check_pair, so this runs once per input
pub fn check_large(_alg: Algorithm, inp: &super::large::LargeInput) -> Result<(bool, u64, u64), String> {
    match large_verdict(inp) {
        Verdict::Ok(nt, n, fp) => Ok((nt, n, fp)),
        Verdict::Kf1(e) => super::cap::kf1_or_violation("C05", e).map(|_| (true, 0, 0x4b46)),
        Verdict::Fail(e) => Err(e),
    }
}

fn large_verdict(inp: &super::large::LargeInput) -> Verdict {
    let old: Vec<u8> = inp.old.iter().flat_map(|x| format!("{}\n", x).into_bytes()).collect();
    let mut new: Vec<u8> = inp.new.iter().flat_map(|x| format!("{}\n", x).into_bytes()).collect();
    if inp.name.len() % 2 == 0 && !new.is_empty() {
        new.pop();
    }
    check_pair(&old, &new, &[0, 3])
}

pub fn replay(case: &Value) -> Result<String, String> {
    if let Some(r) = super::large::resolve(case) {
        let (alg, inp) = r?;
        return check_large(alg, &inp).map(|o| format!("holds; fingerprint {:x}", o.2));
    }
    let old = parse_bytes(case, "old")?;
    let new = parse_bytes(case, "new")?;
    match check_pair(&old, &new, &RADII) {
        Verdict::Ok(_, n, fp) => Ok(format!("holds; {} configurations, fingerprint {:x}", n, fp)),
        Verdict::Kf1(e) => super::cap::kf1_or_violation("C05", e),
        Verdict::Fail(e) => Err(e),
    }
}
