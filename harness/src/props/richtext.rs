//! Enumerated (NOT exhaustive) corpus of rich text atoms and of long texts for the text-level
//! checks: other scripts, long grapheme clusters, every kind of line / paragraph separator,
//! invalid UTF-8 of every length, and texts with more than 100 tokens.  The exhaustive text
//! spaces of C04/C06/C16/C17 stop at 3-6 characters over a dozen letters; this corpus is the
//! complement, labelled as an enumerated family in the evidence.

use super::large::LargeInput;

/// atoms as byte strings (valid and invalid UTF-8)
pub fn atoms() -> Vec<Vec<u8>> {
    let valid: [&str; 59] = [
        "a", "Zebra", "foo_bar", "x1", "42", "3.14", "can't", "e\u{301}", "\u{e9}", "\u{df}",
        " ", "  ", "\t", "\u{a0}", "\u{2003}", "\u{3000}", "\u{200b}", "\u{feff}",
        "\n", "\r", "\r\n", "\n\r", "\u{b}", "\u{c}", "\u{85}", "\u{2028}", "\u{2029}",
        ".", ",", "(", ")", "-", "--", "@@", "+", "\\", "\"",
        "\u{43f}\u{440}\u{438}", "\u{4e2d}\u{6587}", "\u{627}\u{644}", "\u{915}\u{94d}\u{937}", "\u{e01}\u{e33}",
        "\u{1f600}", "\u{1f468}\u{200d}\u{1f469}\u{200d}\u{1f467}", "\u{1f1e6}\u{1f1f9}", "\u{1f1e6}", "\u{2764}\u{fe0f}",
        "\u{1f44d}\u{1f3fd}", "a\u{300}\u{301}\u{302}\u{303}", "\u{1100}\u{1161}\u{11a8}", "\u{10ffff}", "\u{0}",
        // characters a decoder or a fast path is likely to treat specially: the replacement
        // character itself, noncharacters, the code points around the surrogate gap, DEL, ESC
        "\u{fffd}", "\u{fffe}", "\u{ffff}", "\u{d7ff}", "\u{e000}", "\u{7f}", "\u{1b}",
    ];
    let invalid: [&[u8]; 14] = [
        &[0xFF],
        &[0x80],
        &[0xC3],
        &[0xC0, 0xAF],
        &[0xE2, 0x82],
        &[0xE2],
        &[0xED, 0xA0, 0x80],
        &[0xF0, 0x9F, 0x98],
        &[0xF0, 0x9F],
        &[0xF4, 0x90, 0x80, 0x80],
        &[0xF8, 0x88, 0x80, 0x80, 0x80],
        &[0xFF, 0xFE, 0xFD, 0xFC, 0xFB, 0xFA, 0xF9],
        &[0x80, 0x80, 0x80, 0x80, 0x80, 0x80, 0x80, 0x80],
        &[0xC3, 0x28],
    ];
    let mut v: Vec<Vec<u8>> = valid.iter().map(|s| s.as_bytes().to_vec()).collect();
    v.extend(invalid.iter().map(|b| b.to_vec()));
    v
}

/// every concatenation of up to `k` atoms
pub fn atom_texts(k: usize) -> Vec<Vec<u8>> {
    let a = atoms();
    let mut out: Vec<Vec<u8>> = vec![vec![]];
    let mut start = 0;
    for _ in 0..k {
        let end = out.len();
        for i in start..end {
            for x in &a {
                let mut t = out[i].clone();
                t.extend_from_slice(x);
                out.push(t);
            }
        }
        start = end;
    }
    out.sort();
    out.dedup();
    out
}

const WORDS: [&str; 24] = [
    "alpha", "beta", "gamma", "\u{e9}t\u{e9}", "na\u{ef}ve", "\u{43f}\u{440}\u{438}\u{432}\u{435}\u{442}", "\u{4e2d}\u{6587}", "x", "y", "42",
    "fn", "{", "}", "(a,b)", "//", "can't", "\u{1f600}", "e\u{301}", "foo_bar", "3.14", "--", "@@", "+x", "\\",
];

/// a long text from a large input: item -> word, `per_line` words per line, the given line
/// terminator; with `final_newline == false` the last terminator is dropped
pub fn long_text(items: &[u32], per_line: usize, term: &str, final_newline: bool) -> String {
    let mut s = String::new();
    for (i, &x) in items.iter().enumerate() {
        let w = WORDS[(x as usize) % WORDS.len()];
        s.push_str(w);
        if x as usize >= WORDS.len() {
            // keep distinct items distinct
            s.push_str(&format!("{}", x));
        }
        if (i + 1) % per_line == 0 {
            s.push_str(term);
        } else {
            s.push(' ');
        }
    }
    if !final_newline {
        while s.ends_with('\n') || s.ends_with('\r') || s.ends_with(' ') {
            s.pop();
        }
    }
    s
}

/// (name, old text, new text) long text pairs derived from the large sequence inputs
pub fn long_pairs(inputs: &[LargeInput], max_items: usize) -> Vec<(String, String, String)> {
    let mut out = vec![];
    for (i, inp) in inputs.iter().enumerate() {
        if inp.old.len().max(inp.new.len()) > max_items {
            continue;
        }
        let (per_line, term, fin) = match i % 6 {
            0 => (1, "\n", true),
            1 => (3, "\n", false),
            2 => (2, "\r\n", true),
            3 => (1, "\r", true),
            4 => (5, "\n", true),
            _ => (1, "\n", false),
        };
        out.push((
            format!("{} [{} words/line, terminator {:?}, final newline {}]", inp.name, per_line, term, fin),
            long_text(&inp.old, per_line, term, fin),
            long_text(&inp.new, per_line, term, fin),
        ));
    }
    out
}
