//! C18 — get_close_matches equals exhaustive ranking by similarity ratio.

use super::common::*;
use crate::engine::*;
use crate::oracles::*;
use serde_json::{json, Value};
use similar::get_close_matches;

const LETTERS: [&str; 3] = ["a", "b", "\u{e9}"];

fn words(max_len: usize) -> Vec<String> {
    let total = super::c06::count_words(3, max_len);
    let mut w = vec![];
    let mut out = vec![];
    for idx in 0..total {
        super::c06::nth_word(3, idx, &mut w);
        out.push(w.iter().map(|&l| LETTERS[l]).collect::<String>());
    }
    out
}

/// documented ratio: 2*LCS/(len1+len2) over chars, 1.0 for two empty strings
fn ratio(a: &str, b: &str) -> f32 {
    let ca: Vec<char> = a.chars().collect();
    let cb: Vec<char> = b.chars().collect();
    let n = ca.len() + cb.len();
    if n == 0 {
        return 1.0;
    }
    let l = lcs_len(&ca, &cb);
    2.0 * l as f32 / n as f32
}

fn brute<'a>(word: &str, cands: &[&'a str], n: usize, cutoff: f32) -> Vec<&'a str> {
    let mut v: Vec<(f32, &'a str)> = cands
        .iter()
        .map(|c| (ratio(word, c), *c))
        .filter(|(r, _)| *r >= cutoff)
        .collect();
    v.sort_by(|x, y| y.0.partial_cmp(&x.0).unwrap().then(x.1.cmp(y.1)));
    v.into_iter().take(n).map(|x| x.1).collect()
}

/// every achievable ratio m/n for total length n <= max_total, its two f32 neighbours,
/// and a few out-of-range values
fn cutoffs(max_total: usize) -> Vec<f32> {
    let mut v: Vec<f32> = vec![0.0, 1.0, -1.0, 1.5, f32::NAN, f32::MIN_POSITIVE];
    for n in 1..=max_total {
        for l in 0..=n / 2 {
            let r = 2.0 * l as f32 / n as f32;
            v.push(r);
            v.push(f32::from_bits(r.to_bits() + 1));
            if r > 0.0 {
                v.push(f32::from_bits(r.to_bits() - 1));
            }
        }
    }
    v.sort_by(|a, b| a.total_cmp(b));
    v.dedup_by(|a, b| a.to_bits() == b.to_bits());
    v
}

fn check_call(word: &str, cands: &[&str], n: usize, cutoff: f32) -> Result<u64, String> {
    let got = subject(|| get_close_matches(word, cands, n, cutoff))
        .map_err(|p| format!("panic: {}", p))?;
    let want = brute(word, cands, n, cutoff);
    if got != want {
        let ratios: Vec<(f32, &str)> = cands.iter().map(|c| (ratio(word, c), *c)).collect();
        return Err(format!(
            "get_close_matches({:?}, {:?}, {}, {:?}) = {:?}; exhaustive ranking gives {:?} (ratios {:?})",
            word, cands, n, cutoff, got, want, ratios
        ));
    }
    // the byte-string instantiation of the same call (valid UTF-8: same characters)
    if n == 1 || cands.len() > 1 {
        let wb = word.as_bytes();
        let cb: Vec<&[u8]> = cands.iter().map(|c| c.as_bytes()).collect();
        let gotb = subject(|| get_close_matches(wb, &cb, n, cutoff)).map_err(|p| format!("[u8]: panic: {}", p))?;
        let wantb: Vec<&[u8]> = want.iter().map(|c| c.as_bytes()).collect();
        if gotb != wantb {
            return Err(format!(
                "get_close_matches on the same texts as [u8] ({:?}, {:?}, {}, {:?}) = {:?}; exhaustive ranking gives {:?}",
                word,
                cands,
                n,
                cutoff,
                gotb.iter().map(|b| String::from_utf8_lossy(b).to_string()).collect::<Vec<_>>(),
                want
            ));
        }
    }
    // a caller-side DiffableStr with case-insensitive equality: the word upper-cased, the
    // candidates as they are - the ranking must be the one of the lower-case word
    if n == 1 || cands.len() > 1 {
        let upper: Vec<u8> = word.bytes().map(|c| c.to_ascii_uppercase()).collect();
        let wc = crate::instr::Ci::new(&upper);
        let cc: Vec<&crate::instr::Ci> = cands.iter().map(|c| crate::instr::Ci::new(c.as_bytes())).collect();
        let gotc = subject(|| get_close_matches(wc, &cc, n, cutoff)).map_err(|p| format!("case-insensitive DiffableStr: panic: {}", p))?;
        let gotc: Vec<&[u8]> = gotc.iter().map(|c| &c.0).collect();
        let wantb: Vec<&[u8]> = want.iter().map(|c| c.as_bytes()).collect();
        if gotc != wantb {
            return Err(format!(
                "get_close_matches over a case-insensitive DiffableStr ({:?}, {:?}, {}, {:?}) = {:?}; exhaustive ranking gives {:?}",
                String::from_utf8_lossy(&upper),
                cands,
                n,
                cutoff,
                gotc.iter().map(|b| String::from_utf8_lossy(b).to_string()).collect::<Vec<_>>(),
                want
            ));
        }
    }
    let mut fp = Fp::new();
    for s in &got {
        for b in s.bytes() {
            fp.add(b as u64);
        }
        fp.add(0xff);
    }
    Ok(fp.0)
}

const POOL: [&str; 13] = [
    "", "a", "b", "ab", "ba", "aa", "abb", "bab", "\u{e9}a", "a\u{e9}", "abab", "baba", "aab",
];

fn lists(max_len: usize) -> Vec<Vec<&'static str>> {
    let mut out: Vec<Vec<&'static str>> = vec![vec![]];
    let mut start = 0;
    for _ in 0..max_len {
        let end = out.len();
        for i in start..end {
            for w in POOL.iter() {
                let mut v = out[i].clone();
                v.push(*w);
                out.push(v);
            }
        }
        start = end;
    }
    out
}

pub fn run(cfg: &RunCfg) -> CheckReport {
    let mut rep = CheckReport::new(
        "exploration",
        "part 'filter': every (word, single candidate) over {a,b,e-acute} up to length L x n in {0,1,2} x every cutoff in the critical set (every achievable ratio 2l/n for total length <= 2L, its two neighbouring f32 values, 0, 1, -1, 1.5, NaN, MIN_POSITIVE); part 'ranking': every pool word as query x every candidate list of up to K entries from the 13-word pool (duplicates and the empty string included) x n in 0..=K+1 x 14 cutoffs. Oracle: brute-force ranking with the harness's own LCS. One case = one call; non-trivial: the expected result is non-empty ('filter') resp. has >= 2 entries ('ranking').",
    );
    rep.assume("oracle ratio = 2.0*LCS as f32/(len1+len2) as f32 over chars (1.0 for two empty strings); ordering: ratio descending, then string ascending");
    let l = cfg.tier.pick(5, 6);
    let ws = words(l);
    let cuts = cutoffs(2 * l);
    let ex = explore(cfg, ws.len(), |shard, acc| {
        let word = &ws[shard];
        for cand in &ws {
            let c = [cand.as_str()];
            for &cut in &cuts {
                for n in 0..3 {
                    match check_call(word, &c, n, cut) {
                        Ok(fp) => {
                            if acc.want_sample() {
                                acc.sample(json!({"word": word, "candidates": c, "n": n, "cutoff": cut}));
                            }
                            let nontrivial = n > 0 && ratio(word, cand) >= cut;
                            acc.ok(nontrivial, 1, fp ^ ((n as u64) << 60));
                        }
                        Err(e) => acc.violation(|| {
                            (
                                json!({"word": word, "candidates": c, "n": n, "cutoff_bits": cut.to_bits()}),
                                e,
                            )
                        }),
                    }
                    if acc.stop() {
                        return;
                    }
                }
            }
        }
    });
    rep.part("filter", json!({"max_word_len": l, "words": ws.len(), "cutoffs": cuts.len()}), ex);
    if rep.has_violation() {
        return rep;
    }
    let k = cfg.tier.pick(4, 5);
    let ls = lists(k);
    let rcuts: Vec<f32> = {
        let two_thirds = 2.0 * 1.0f32 / 3.0f32;
        vec![
            0.0,
            0.3,
            0.4,
            0.5,
            f32::from_bits(0.5f32.to_bits() + 1),
            0.6,
            two_thirds,
            f32::from_bits(two_thirds.to_bits() + 1),
            f32::from_bits(two_thirds.to_bits() - 1),
            0.75,
            0.8,
            0.85,
            1.0,
            f32::from_bits(1.0f32.to_bits() - 1),
        ]
    };
    let chunk = 16;
    let nshards = (ls.len() + chunk - 1) / chunk;
    let ex = explore(cfg, nshards, |shard, acc| {
        for list in &ls[shard * chunk..((shard + 1) * chunk).min(ls.len())] {
            for word in POOL.iter() {
                for &cut in &rcuts {
                    for n in 0..=list.len() + 1 {
                        match check_call(word, list, n, cut) {
                            Ok(fp) => {
                                if acc.want_sample() {
                                    acc.sample(json!({"word": word, "candidates": list, "n": n, "cutoff": cut}));
                                }
                                let expected = brute(word, list, n, cut).len();
                                acc.ok(expected >= 2, 1, fp);
                            }
                            Err(e) => acc.violation(|| {
                                (
                                    json!({"word": word, "candidates": list, "n": n, "cutoff_bits": cut.to_bits()}),
                                    e,
                                )
                            }),
                        }
                        if acc.stop() {
                            return;
                        }
                    }
                }
            }
        }
    });
    rep.part("ranking", json!({"pool": POOL, "max_list_len": k, "lists": ls.len(), "cutoffs": rcuts}), ex);
    if rep.has_violation() {
        return rep;
    }
    let lw = long_word_cases();
    let ex = explore(cfg, lw.len(), |shard, acc| {
        let (word, cands) = &lw[shard];
        let refs: Vec<&str> = cands.iter().map(|s| s.as_str()).collect();
        // single candidates at their own ratio and its neighbours
        for c in &refs {
            let r = ratio(word, c);
            for cut in [r, f32::from_bits(r.to_bits() + 1), f32::from_bits(r.to_bits().saturating_sub(1)), r * 0.999, 0.5] {
                let one = [*c];
                match check_call(word, &one, 1, cut) {
                    Ok(fp) => {
                        if acc.want_sample() {
                            acc.sample(json!({"word": word, "candidates": one, "n": 1, "cutoff": cut}));
                        }
                        acc.ok(r >= cut, 1, fp);
                    }
                    Err(e) => acc.violation(|| {
                        (json!({"word": word, "candidates": one, "n": 1, "cutoff_bits": cut.to_bits()}), e)
                    }),
                }
                if acc.stop() {
                    return;
                }
            }
        }
        // the whole candidate list, several n and cutoffs (many equal-ratio ties)
        for n in [1usize, 3, 10, refs.len() + 1] {
            for cut in [0.0f32, 0.3, 0.5, 0.6, 0.75, 0.9] {
                match check_call(word, &refs, n, cut) {
                    Ok(fp) => acc.ok(true, 1, fp),
                    Err(e) => acc.violation(|| {
                        (json!({"word": word, "candidates": refs, "n": n, "cutoff_bits": cut.to_bits()}), e)
                    }),
                }
                if acc.stop() {
                    return;
                }
            }
        }
    });
    if ex.acc.violation.is_none() {
        // a tiny word against very long candidates whose ratios differ by less than 2^-24 and
        // whose lexicographic order is the opposite of their ratio order
        let mut cases: Vec<(String, Vec<String>)> = vec![];
        for &l in &[3000usize, 5993, 8199] {
            cases.push(("a".into(), vec![format!("a{}", "c".repeat(l)), format!("a{}", "b".repeat(l + 1))]));
            cases.push(("ab".into(), vec![format!("ab{}", "d".repeat(l)), format!("ab{}", "c".repeat(l + 1)), format!("b{}", "c".repeat(l))]));
        }
        let ex3 = explore(cfg, cases.len(), |shard, acc| {
            let (word, cands) = &cases[shard];
            let refs: Vec<&str> = cands.iter().map(|s| s.as_str()).collect();
            for n in [1usize, 2, 5] {
                for cut in [0.0f32, 1e-5, 1e-4] {
                    match check_call(word, &refs, n, cut) {
                        Ok(fp) => {
                            acc.sample(json!({"word": word, "candidate_lengths": cands.iter().map(|c| c.len()).collect::<Vec<_>>(), "n": n, "cutoff": cut}));
                            acc.ok(true, 1, fp);
                        }
                        Err(e) => {
                            let short: String = e.chars().take(300).collect();
                            acc.violation(|| (json!({"word": word, "candidates": refs, "n": n, "cutoff_bits": cut.to_bits()}), format!("candidates of {:?} chars: {}", cands.iter().map(|c| c.chars().count()).collect::<Vec<_>>(), short)))
                        }
                    }
                    if acc.stop() {
                        return;
                    }
                }
            }
        });
        rep.part("tiny-word-vs-huge-candidates", json!({"candidate_lengths": [3000, 5993, 8199], "note": "enumerated family"}), ex3);
    }
    rep.part("long-words", json!({"words": lw.len(), "note": "enumerated family: words of 7..45 chars (periodic, natural, multi-byte), candidates = prefixes / suffixes / subsequences / perturbed copies, cutoffs = each candidate's own ratio and its f32 neighbours; plus whole lists with many ties"}), ex);
    rep
}

/// longer words (7..=45 chars): periodic and natural-looking words, incl. multi-byte ones;
/// candidates are prefixes, suffixes, subsequences and perturbed copies; cutoffs are exactly
/// the candidate's own ratio and its two f32 neighbours (where pre-filter rounding bites)
fn long_word_cases() -> Vec<(String, Vec<String>)> {
    let bases: [&str; 8] = [
        "abcabcabcabcabcabcabcabcabcabcabcabcabcabcabc",
        "aaaaaaaaaaaaaaaaaaaaaaaaaaaaaaaaaaaaaaaaaaaaa",
        "internationalizationalization",
        "gr\u{f6}\u{df}enordnungsm\u{e4}\u{df}igkeitsbetrachtung",
        "the quick brown fox jumps over the lazy dog",
        "\u{65e5}\u{672c}\u{8a9e}\u{306e}\u{30c6}\u{30ad}\u{30b9}\u{30c8}\u{3092}\u{6bd4}\u{8f03}\u{3059}\u{308b}",
        "abababababababababababababababababab",
        "xyzzyxyzzyxyzzyxyzzyxyzzyxyzzy",
    ];
    let mut out = vec![];
    for b in bases.iter() {
        let chars: Vec<char> = b.chars().collect();
        for wl in (7..=chars.len()).step_by(2) {
            let word: String = chars[..wl].iter().collect();
            let mut cands: Vec<String> = vec![];
            for cl in 1..=wl {
                cands.push(chars[..cl].iter().collect()); // prefix
                cands.push(chars[wl - cl..wl].iter().collect()); // suffix
                if cl % 3 == 0 {
                    cands.push(chars[..wl].iter().step_by(wl / cl.max(1) + 1).collect()); // subsequence
                }
            }
            // perturbed copies
            let mut p = chars[..wl].to_vec();
            p[wl / 2] = '#';
            cands.push(p.iter().collect());
            p.insert(1, '#');
            cands.push(p.iter().collect());
            cands.sort();
            cands.dedup();
            out.push((word, cands));
        }
    }
    out
}

pub fn replay(case: &Value) -> Result<String, String> {
    let word = parse_str(case, "word")?;
    let cands: Vec<&str> = case
        .get("candidates")
        .and_then(|x| x.as_array())
        .ok_or("no candidates")?
        .iter()
        .map(|x| x.as_str().unwrap_or(""))
        .collect();
    let n = parse_u64(case, "n")? as usize;
    let cut = f32::from_bits(parse_u64(case, "cutoff_bits")? as u32);
    check_call(word, &cands, n, cut).map(|f| format!("holds; fingerprint {:x}", f))
}
