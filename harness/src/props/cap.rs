//! C02, C03, C09, C11 — properties of the captured op lists (capture_diff*, TextDiff::ops).

use super::common::*;
use crate::engine::*;
use crate::instr::{arm_clock, some_deadline, Win};
use crate::oracles::*;
use crate::spaces::*;
use serde_json::{json, Value};
use similar::{Algorithm, DiffOp, TextDiff};

pub const TOKENS: [&str; 16] = [
    "a\n", "b\n", "c\n", "d\n", "e\n", "f\n", "g\n", "h\n", "i\n", "j\n", "k\n", "l\n", "m\n",
    "n\n", "o\n", "p\n",
];

pub fn toks(s: &[u8]) -> Vec<&'static str> {
    s.iter().map(|&x| TOKENS[x as usize]).collect()
}

pub const CAP_ENTRIES: [&str; 5] = [
    "capture_diff",
    "capture_diff_deadline(None)",
    "capture_diff_slices",
    "capture_diff_slices_deadline(None)",
    "TextDiff::ops (diff_slices)",
];

/// Full-range captured ops through capture entry point `e`.
pub fn cap_entry(e: usize, alg: Algorithm, old: &[u8], new: &[u8]) -> Result<Vec<DiffOp>, String> {
    let (n, m) = (old.len(), new.len());
    subject(|| match e {
        0 => similar::capture_diff(alg, old, 0..n, new, 0..m),
        1 => similar::capture_diff_deadline(alg, old, 0..n, new, 0..m, None),
        2 => similar::capture_diff_slices(alg, old, new),
        3 => similar::capture_diff_slices_deadline(alg, old, new, None),
        _ => {
            let (o, n) = (toks(old), toks(new));
            TextDiff::configure()
                .algorithm(alg)
                .diff_slices(&o, &n)
                .ops()
                .to_vec()
        }
    })
    .map_err(|p| format!("{}: panic: {}", CAP_ENTRIES[e], p))
}

/// Captured ops on a sub-range embedding; mode 0 = window Index, 1 = padded slices.
pub fn cap_embedded(
    alg: Algorithm,
    old: &[u8],
    new: &[u8],
    po: usize,
    pn: usize,
    mode: usize,
) -> Result<(Vec<DiffOp>, Vec<u8>, Vec<u8>), String> {
    let full_old = embed(old, po, 2, new);
    let full_new = embed(new, pn, 2, old);
    let or = po..po + old.len();
    let nr = pn..pn + new.len();
    let ops = if mode == 0 {
        let wo = Win {
            data: &full_old,
            lo: or.start,
            hi: or.end,
        };
        let wn = Win {
            data: &full_new,
            lo: nr.start,
            hi: nr.end,
        };
        capture(alg, &wo, or.clone(), &wn, nr.clone())
    } else {
        capture(alg, &full_old[..], or.clone(), &full_new[..], nr.clone())
    }
    .map_err(|e| {
        format!(
            "capture_diff on sub-ranges old {:?} new {:?} ({}): {}",
            or,
            nr,
            if mode == 0 { "window Index" } else { "padded slices" },
            e
        )
    })?;
    Ok((ops, full_old, full_new))
}

/// Captured ops with the virtual clock expiring at probe `k`; returns (ops, probes made).
pub fn cap_deadline(
    alg: Algorithm,
    old: &[u8],
    new: &[u8],
    k: u64,
) -> Result<(Vec<DiffOp>, u64), String> {
    let (n, m) = (old.len(), new.len());
    let mut probes = 0;
    let r = subject(|| {
        let clock = arm_clock(k);
        let ops = similar::capture_diff_deadline(alg, old, 0..n, new, 0..m, some_deadline());
        probes = clock.probes.get();
        ops
    })
    .map_err(|p| format!("capture_diff_deadline with expiry at probe {}: panic: {}", k, p))?;
    Ok((r, probes))
}

fn check_ratio(ops: &[DiffOp], old: &[u8], new: &[u8], what: &str) -> Result<(), String> {
    let r = similar::get_diff_ratio(ops, old.len(), new.len());
    if !(0.0..=1.0).contains(&r) {
        return Err(format!("{}: ratio {} outside 0..=1", what, r));
    }
    if (r == 1.0) != (old == new) {
        return Err(format!(
            "{}: ratio {} but inputs are {}",
            what,
            r,
            if old == new { "equal" } else { "different" }
        ));
    }
    Ok(())
}

fn c02_clauses(
    ops: &[DiffOp],
    old: &[u8],
    or: std::ops::Range<usize>,
    new: &[u8],
    nr: std::ops::Range<usize>,
    what: &str,
) -> Result<OpsStats, String> {
    let st = validate_ops(ops, old, or.clone(), new, nr.clone(), false)
        .map_err(|e| format!("{}: {} [ops: {:?}]", what, e, ops))?;
    apply_ops(ops, old, or.clone(), new, nr.clone())
        .map_err(|e| format!("{}: {} [ops: {:?}]", what, e, ops))?;
    if old[or.clone()] == new[nr.clone()] {
        if st.n_change != 0 {
            return Err(format!("{}: identical inputs but ops {:?}", what, ops));
        }
        if or.is_empty() && !ops.is_empty() {
            return Err(format!("{}: two empty inputs but ops {:?}", what, ops));
        }
    }
    Ok(st)
}


// ---------------------------------------------------------------------------------------
// large enumerated families (see props/large.rs): the same oracles on big structured inputs
// ---------------------------------------------------------------------------------------

use super::large::{self, LargeInput};

fn cap32(alg: Algorithm, old: &[u32], new: &[u32]) -> Result<Vec<DiffOp>, String> {
    capture(alg, old, 0..old.len(), new, 0..new.len())
}

/// captured ops with the virtual clock expiring at probe k; (ops, probes)
fn cap32_deadline(alg: Algorithm, old: &[u32], new: &[u32], k: u64) -> Result<(Vec<DiffOp>, u64), String> {
    let mut probes = 0;
    let r = subject(|| {
        let clock = arm_clock(k);
        let ops = similar::capture_diff_deadline(alg, old, 0..old.len(), new, 0..new.len(), some_deadline());
        probes = clock.probes.get();
        ops
    })
    .map_err(|p| format!("capture_diff_deadline with expiry at probe {}: panic: {}", k, p))?;
    Ok((r, probes))
}

fn expiry_points(pinf: u64) -> Vec<u64> {
    let mut v = vec![0, 1, 2, 5, pinf / 3, pinf / 2, pinf.saturating_sub(2), pinf.saturating_sub(1)];
    v.retain(|&k| k < pinf);
    v.sort();
    v.dedup();
    v
}

pub fn c02_large(alg: Algorithm, inp: &LargeInput) -> Result<(bool, u64, u64), String> {
    let (old, new) = (&inp.old[..], &inp.new[..]);
    let (n, m) = (old.len(), new.len());
    let ops = cap32(alg, old, new)?;
    let chk = |ops: &[DiffOp], what: &str| -> Result<OpsStats, String> {
        let st = validate_ops(ops, old, 0..n, new, 0..m, false).map_err(|e| format!("{}: {}", what, e))?;
        apply_ops(ops, old, 0..n, new, 0..m).map_err(|e| format!("{}: {}", what, e))?;
        if old == new && (st.n_change != 0 || (n == 0 && !ops.is_empty())) {
            return Err(format!("{}: identical inputs but ops {:?}", what, ops));
        }
        let r = similar::get_diff_ratio(ops, n, m);
        if !(0.0..=1.0).contains(&r) || (r == 1.0) != (old == new) {
            return Err(format!("{}: ratio {}", what, r));
        }
        Ok(st)
    };
    let st = chk(&ops, "capture_diff")?;
    let (po, pn) = (7usize, 3usize);
    let fo = large::embed32(old, po, 2, new);
    let fnw = large::embed32(new, pn, 2, old);
    let sub = capture(alg, &fo[..], po..po + n, &fnw[..], pn..pn + m)?;
    validate_ops(&sub, &fo, po..po + n, &fnw, pn..pn + m, false)
        .map_err(|e| format!("capture_diff on sub-ranges old {:?} new {:?}: {}", po..po + n, pn..pn + m, e))?;
    // the text-diff path (above 100 tokens it maps items to integers first)
    {
        let so: Vec<String> = old.iter().map(|x| format!("{}\n", x)).collect();
        let sn: Vec<String> = new.iter().map(|x| format!("{}\n", x)).collect();
        let ro: Vec<&str> = so.iter().map(|s| s.as_str()).collect();
        let rn: Vec<&str> = sn.iter().map(|s| s.as_str()).collect();
        let (to, tn) = (so.concat(), sn.concat());
        let (t1, t2, r1) = subject(|| {
            let d = TextDiff::configure().algorithm(alg).diff_slices(&ro, &rn);
            let dl = TextDiff::configure().algorithm(alg).diff_lines(&to, &tn);
            (d.ops().to_vec(), dl.ops().to_vec(), d.ratio())
        })
        .map_err(|p| format!("TextDiff: panic: {}", p))?;
        chk(&t1, "TextDiff::ops (diff_slices)")?;
        chk(&t2, "TextDiff::ops (diff_lines)")?;
        if !(0.0..=1.0).contains(&r1) || (r1 == 1.0) != (old == new) {
            return Err(format!("TextDiff::ratio = {}", r1));
        }
        // different element types on the two sides (equal across the types, hashing differently;
        // a new type whose own Eq is finer) at this size
        if n + m <= 1200 {
            let lo: Vec<crate::instr::Lo> = old.iter().map(|&x| crate::instr::Lo(x)).collect();
            let hi: Vec<crate::instr::Hi> = new.iter().map(|&x| crate::instr::Hi(x as u64)).collect();
            let h = capture(alg, &lo[..], 0..n, &hi[..], 0..m)?;
            chk(&h, "capture_diff with old items Lo(u32) and new items Hi(u64)")?;
            let tg: Vec<crate::instr::Tagged> = new.iter().enumerate().map(|(i, &x)| crate::instr::Tagged { v: x, tag: i }).collect();
            let h = capture(alg, &lo[..], 0..n, &tg[..], 0..m)?;
            chk(&h, "capture_diff with old items Lo(u32) and new items Tagged{v,tag}")?;
        }
        // the same lines as a caller-side DiffableStr whose hash is coarse (the line length only)
        if n + m <= 1200 {
            let t3 = subject(|| {
                use crate::instr::Ch;
                TextDiff::configure().algorithm(alg).diff_lines(Ch::new(to.as_bytes()), Ch::new(tn.as_bytes())).ops().to_vec()
            })
            .map_err(|p| format!("TextDiff over a DiffableStr with a coarse hash: panic: {}", p))?;
            chk(&t3, "TextDiff::ops (diff_lines over a caller-side DiffableStr whose hash is the token length only)")?;
        }
    }
    let (_, pinf) = cap32_deadline(alg, old, new, u64::MAX)?;
    let mut tr = ops.len() as u64 + sub.len() as u64;
    // inputs whose single diff is expensive ((N+M)*(D+1) above 2*10^7, or an LCS side beyond
    // 2^15) get three expiry points instead of eight
    let heavy = (n + m) as u64 * (st.deleted + st.inserted + 1) as u64 > 20_000_000
        || (alg == Algorithm::Lcs && n.max(m) > 32_768);
    let mut points = expiry_points(pinf);
    if heavy {
        points.retain(|&k| k == 0 || k == pinf / 2 || k + 1 == pinf);
    }
    for k in points {
        let (o, _) = cap32_deadline(alg, old, new, k)?;
        chk(&o, &format!("capture_diff_deadline, clock expiring at probe {} of {}", k, pinf))?;
        tr += o.len() as u64;
        // the combination: sub-ranges AND a deadline expiring at the same probe
        let subk = subject(|| {
            let _clock = arm_clock(k);
            similar::capture_diff_deadline(alg, &fo[..], po..po + n, &fnw[..], pn..pn + m, some_deadline())
        })
        .map_err(|p| format!("capture_diff_deadline on sub-ranges, expiry at probe {}: panic: {}", k, p))?;
        validate_ops(&subk, &fo, po..po + n, &fnw, pn..pn + m, false).map_err(|e| {
            format!(
                "capture_diff_deadline on sub-ranges old {:?} new {:?}, clock expiring at probe {} of {}: {}",
                po..po + n,
                pn..pn + m,
                k,
                pinf,
                e
            )
        })?;
        let shifted: Vec<DiffOp> = o
            .iter()
            .map(|op| match *op {
                DiffOp::Equal { old_index, new_index, len } => DiffOp::Equal { old_index: old_index + po, new_index: new_index + pn, len },
                DiffOp::Delete { old_index, old_len, new_index } => DiffOp::Delete { old_index: old_index + po, old_len, new_index: new_index + pn },
                DiffOp::Insert { old_index, new_index, new_len } => DiffOp::Insert { old_index: old_index + po, new_index: new_index + pn, new_len },
                DiffOp::Replace { old_index, old_len, new_index, new_len } => DiffOp::Replace { old_index: old_index + po, old_len, new_index: new_index + pn, new_len },
            })
            .collect();
        if subk != shifted {
            return Err(format!(
                "capture_diff_deadline, clock expiring at probe {}: ops on sub-ranges old {:?} new {:?} differ from the full-range ops shifted by the range starts",
                k,
                po..po + n,
                pn..pn + m
            ));
        }
    }
    Ok((st.n_equal > 0 && st.n_change > 0, tr, ops_fp(&ops)))
}

/// Line diff of the items written as lines of a caller-side, case-insensitive DiffableStr: old
/// lines are "v<item>", new lines alternate "V<item>" / "v<item>", so lines that are equal for
/// the type mostly differ in their bytes (above 100 lines the text diff maps lines to integers).
fn ci_line_ops(alg: Algorithm, old: &[u32], new: &[u32]) -> Result<Vec<DiffOp>, String> {
    let to: String = old.iter().map(|x| format!("v{}\n", x)).collect();
    let tn: String = new.iter().enumerate().map(|(i, x)| format!("{}{}\n", if i % 2 == 0 { "V" } else { "v" }, x)).collect();
    subject(|| {
        use crate::instr::Ci;
        TextDiff::configure().algorithm(alg).diff_lines(Ci::new(to.as_bytes()), Ci::new(tn.as_bytes())).ops().to_vec()
    })
    .map_err(|p| format!("TextDiff over a case-insensitive DiffableStr: panic: {}", p))
}

pub fn c09_large(alg: Algorithm, inp: &LargeInput) -> Result<(bool, u64, u64), String> {
    let (old, new) = (&inp.old[..], &inp.new[..]);
    let ops = cap32(alg, old, new)?;
    normal_form(&ops, old, new).map_err(|e| format!("capture_diff: {}", e))?;
    if old.len() + new.len() <= 1200 {
        let cops = ci_line_ops(alg, old, new)?;
        validate_ops(&cops, old, 0..old.len(), new, 0..new.len(), false)
            .and_then(|_| normal_form(&cops, old, new))
            .map_err(|e| format!("TextDiff::ops (diff_lines over a case-insensitive DiffableStr, lines differing in case only): {} [ops: {:?}]", e, cops))?;
    }
    let (_, pinf) = cap32_deadline(alg, old, new, u64::MAX)?;
    let mut tr = ops.len() as u64;
    for k in expiry_points(pinf) {
        let (o, _) = cap32_deadline(alg, old, new, k)?;
        normal_form(&o, old, new).map_err(|e| format!("capture_diff_deadline, clock expiring at probe {} of {}: {}", k, pinf, e))?;
        tr += o.len() as u64;
    }
    Ok((ops.len() >= 2, tr, ops_fp(&ops)))
}

pub fn c03_large(alg: Algorithm, inp: &LargeInput) -> Result<(bool, u64, u64), String> {
    let (old, new) = (&inp.old[..], &inp.new[..]);
    let (n, m) = (old.len(), new.len());
    let l = lcs_len(old, new);
    let want = n + m - 2 * l;
    let base = raw_stream(alg, 0, old, 0..n, new, 0..m)?;
    let st = validate_stream(&base, old, 0..n, new, 0..m, true).map_err(|e| format!("raw stream invalid: {}", e))?;
    if st.deleted + st.inserted != want {
        return Err(format!(
            "raw {} script deletes {} and inserts {} items; a shortest script has {} (N={} M={} LCS={})",
            alg_name(alg), st.deleted, st.inserted, want, n, m, l
        ));
    }
    let ops = cap32(alg, old, new)?;
    let so = validate_ops(&ops, old, 0..n, new, 0..m, false)?;
    if so.deleted + so.inserted != want || so.equal_items != l {
        return Err(format!(
            "captured {} ops: {} deleted {} inserted {} equal; a shortest script has {} changes and {} equal items",
            alg_name(alg), so.deleted, so.inserted, so.equal_items, want, l
        ));
    }
    let r = similar::get_diff_ratio(&ops, n, m);
    let expect = if n + m == 0 { 1.0 } else { 2.0 * l as f32 / (n + m) as f32 };
    if (r - expect).abs() > 1e-6 {
        return Err(format!("ratio {} but 2*LCS/(N+M) = {}", r, expect));
    }
    if n + m <= 1200 {
        let cops = ci_line_ops(alg, old, new)?;
        let sc = validate_ops(&cops, old, 0..n, new, 0..m, false)
            .map_err(|e| format!("TextDiff::ops (diff_lines over a case-insensitive DiffableStr): {}", e))?;
        if sc.deleted + sc.inserted != want || sc.equal_items != l {
            return Err(format!(
                "TextDiff::ops (diff_lines over a case-insensitive DiffableStr, lines differing in case only), {}: {} deleted {} inserted {} equal; a shortest script has {} changes and {} equal items",
                alg_name(alg), sc.deleted, sc.inserted, sc.equal_items, want, l
            ));
        }
    }
    Ok((l > 0 && l < n.min(m), base.len() as u64 + ops.len() as u64, ops_fp(&ops)))
}

pub fn c11_large(alg: Algorithm, inp: &LargeInput) -> Exact {
    let (old, new) = (&inp.old[..], &inp.new[..]);
    let (n, m) = (old.len(), new.len());
    let run = |repair: bool, exact: bool| -> Result<(Vec<DiffOp>, u64), String> {
        let mut swaps = 0;
        let ops = subject(|| {
            similar::verif::take_swaps();
            similar::verif::set_swap_repair(repair);
            let ops = similar::capture_diff(alg, old, 0..n, new, 0..m);
            swaps = similar::verif::take_swaps();
            ops
        })
        .map_err(|p| format!("panic: {}", p))?;
        validate_ops(&ops, old, 0..n, new, 0..m, exact).map_err(|e| format!("capture_diff: {}", e))?;
        // the same input embedded at non-zero range starts
        {
            let (po, pn) = (3usize, 5usize);
            let fo = large::embed32(old, po, 2, new);
            let fnw = large::embed32(new, pn, 2, old);
            let sub = subject(|| {
                similar::verif::take_swaps();
                similar::verif::set_swap_repair(repair);
                let ops = similar::capture_diff(alg, &fo[..], po..po + n, &fnw[..], pn..pn + m);
                swaps += similar::verif::take_swaps();
                ops
            })
            .map_err(|p| format!("capture_diff on sub-ranges: panic: {}", p))?;
            validate_ops(&sub, &fo, po..po + n, &fnw, pn..pn + m, exact)
                .map_err(|e| format!("capture_diff on sub-ranges old {:?} new {:?}: {}", po..po + n, pn..pn + m, e))?;
        }
        // the text-diff path (integer mapping above 100 tokens)
        let so: Vec<String> = old.iter().map(|x| format!("{}\n", x)).collect();
        let sn: Vec<String> = new.iter().map(|x| format!("{}\n", x)).collect();
        let ro: Vec<&str> = so.iter().map(|s| s.as_str()).collect();
        let rn: Vec<&str> = sn.iter().map(|s| s.as_str()).collect();
        let tops = subject(|| {
            similar::verif::take_swaps();
            similar::verif::set_swap_repair(repair);
            let ops = TextDiff::configure().algorithm(alg).diff_slices(&ro, &rn).ops().to_vec();
            swaps += similar::verif::take_swaps();
            ops
        })
        .map_err(|p| format!("TextDiff: panic: {}", p))?;
        validate_ops(&tops, old, 0..n, new, 0..m, exact).map_err(|e| format!("TextDiff::ops: {}", e))?;
        Ok((ops, swaps))
    };
    match run(false, true) {
        Ok((ops, _)) => Exact::Ok(Out {
            nontrivial: ops.len() >= 2,
            transitions: ops.len() as u64,
            fp: ops_fp(&ops),
        }),
        Err(e) => {
            if let Err(e2) = run(false, false) {
                return Exact::Fail(format!("{} [not a carried-index problem: {}]", e, e2));
            }
            match run(true, true) {
                Ok((_, swaps)) if swaps > 0 => Exact::Kf1(e),
                _ => Exact::Fail(e),
            }
        }
    }
}

// ---------------------------------------------------------------------------------------
// C02
// ---------------------------------------------------------------------------------------

pub struct Out {
    pub nontrivial: bool,
    pub transitions: u64,
    pub fp: u64,
}

pub fn c02_pair(alg: Algorithm, old: &[u8], new: &[u8]) -> Result<Out, String> {
    let (n, m) = (old.len(), new.len());
    let mut transitions = 0;
    let mut first: Option<(Vec<DiffOp>, OpsStats)> = None;
    for e in 0..CAP_ENTRIES.len() {
        let ops = cap_entry(e, alg, old, new)?;
        let st = c02_clauses(&ops, old, 0..n, new, 0..m, CAP_ENTRIES[e])?;
        check_ratio(&ops, old, new, CAP_ENTRIES[e])?;
        transitions += ops.len() as u64;
        if e == 4 {
            // TextDiff::ratio
            let (o, nn) = (toks(old), toks(new));
            let r = subject(|| {
                TextDiff::configure()
                    .algorithm(alg)
                    .diff_slices(&o, &nn)
                    .ratio()
            })
            .map_err(|p| format!("TextDiff::ratio: panic: {}", p))?;
            if !(0.0..=1.0).contains(&r) || (r == 1.0) != (old == new) {
                return Err(format!("TextDiff::ratio = {} for old={:?} new={:?}", r, old, new));
            }
        }
        if first.is_none() {
            first = Some((ops, st));
        }
    }
    {
        let lo: Vec<crate::instr::Lo> = old.iter().map(|&x| crate::instr::Lo(x as u32)).collect();
        let tg = crate::instr::tagged(new);
        let what = "capture_diff with old items Lo(u32), new items Tagged{v,tag} (own Eq finer than Tagged == Lo)";
        let ops = capture(alg, &lo[..], 0..n, &tg[..], 0..m).map_err(|e| format!("{}: {}", what, e))?;
        c02_clauses(&ops, old, 0..n, new, 0..m, what)?;
        check_ratio(&ops, old, new, what)?;
        transitions += ops.len() as u64;
    }
    for &(po, pn) in OFFSETS.iter() {
        for mode in 0..2 {
            let (ops, fo, fnw) = cap_embedded(alg, old, new, po, pn, mode)?;
            transitions += ops.len() as u64;
            c02_clauses(
                &ops,
                &fo,
                po..po + n,
                &fnw,
                pn..pn + m,
                &format!(
                    "capture_diff on sub-ranges old {:?} new {:?} of old={:?} new={:?}",
                    po..po + n,
                    pn..pn + m,
                    fo,
                    fnw
                ),
            )?;
        }
    }
    let (ops, st) = first.unwrap();
    Ok(Out {
        nontrivial: n > 0 && m > 0 && st.n_equal > 0 && st.n_change > 0,
        transitions,
        fp: ops_fp(&ops),
    })
}

/// Arguments that alias: old and new are two views into ONE buffer (every pair of sub-slices),
/// through the slice entry points, capture_diff with ranges into the same sequence, token
/// slices sharing one vector, and str views of one string.
pub fn c02_aliased(alg: Algorithm, buf: &[u8]) -> Result<Out, String> {
    let l = buf.len();
    let tb = toks(buf);
    let text: String = buf.iter().map(|&x| (b'a' + x) as char).collect();
    let text_lines: String = buf.iter().map(|&x| if x == 0 { "\n".to_string() } else { ((b'a' + x) as char).to_string() }).collect();
    let mut transitions = 0;
    let mut fp = Fp::new();
    let mut any = false;
    for i in 0..=l {
        for j in i..=l {
            for k in 0..=l {
                for e in k..=l {
                    let (old, new) = (&buf[i..j], &buf[k..e]);
                    let what = |entry: &str| format!("{} on two views old=buf[{}..{}] new=buf[{}..{}] of one buffer {:?}", entry, i, j, k, e, buf);
                    for entry in 0..6 {
                        let name = ["capture_diff_slices", "capture_diff_slices_deadline(None)", "capture_diff with ranges into the same sequence", "TextDiff::diff_slices", "TextDiff::from_chars", "TextDiff::from_lines"][entry];
                        let ops = subject(|| match entry {
                            0 => similar::capture_diff_slices(alg, old, new),
                            1 => similar::capture_diff_slices_deadline(alg, old, new, None),
                            2 => similar::capture_diff(alg, buf, i..j, buf, k..e),
                            3 => TextDiff::configure().algorithm(alg).diff_slices(&tb[i..j], &tb[k..e]).ops().to_vec(),
                            4 => TextDiff::configure().algorithm(alg).diff_chars(&text[i..j], &text[k..e]).ops().to_vec(),
                            _ => {
                                let d = TextDiff::configure().algorithm(alg).diff_lines(&text_lines[i..j], &text_lines[k..e]);
                                // (line tokens differ from the items: validated on the token slices)
                                let (o, n) = (d.old_slices(), d.new_slices());
                                if let Err(e) = validate_ops(d.ops(), o, 0..o.len(), n, 0..n.len(), false).and_then(|_| apply_ops(d.ops(), o, 0..o.len(), n, 0..n.len())) {
                                    panic!("invalid script: {} [ops: {:?}]", e, d.ops());
                                }
                                vec![]
                            }
                        })
                        .map_err(|p| format!("{}: panic: {}", what(name), p))?;
                        if entry == 5 {
                            continue;
                        }
                        transitions += ops.len() as u64;
                        if entry == 2 {
                            c02_clauses(&ops, buf, i..j, buf, k..e, &what(name))?;
                        } else {
                            c02_clauses(&ops, old, 0..old.len(), new, 0..new.len(), &what(name))?;
                            check_ratio(&ops, old, new, &what(name))?;
                        }
                        if entry == 0 {
                            fp.add(ops_fp(&ops));
                            any |= ops.len() > 1;
                        }
                    }
                }
            }
        }
    }
    Ok(Out { nontrivial: any, transitions, fp: fp.0 })
}

/// Zero-sized items: all views of all vectors share one address.
pub fn c02_zero_sized(alg: Algorithm, n: usize, m: usize) -> Result<u64, String> {
    let old = vec![(); n];
    let new = vec![(); m];
    let mut fp = Fp::new();
    for entry in 0..3 {
        let name = ["capture_diff_slices", "capture_diff_slices_deadline(None)", "capture_diff"][entry];
        let ops = subject(|| match entry {
            0 => similar::capture_diff_slices(alg, &old, &new),
            1 => similar::capture_diff_slices_deadline(alg, &old, &new, None),
            _ => similar::capture_diff(alg, &old, 0..n, &new, 0..m),
        })
        .map_err(|p| format!("{} on {} and {} zero-sized items: panic: {}", name, n, m, p))?;
        validate_ops(&ops, &old, 0..n, &new, 0..m, false)
            .and_then(|_| apply_ops(&ops, &old, 0..n, &new, 0..m))
            .map_err(|e| format!("{} on {} and {} zero-sized items: {} [ops: {:?}]", name, n, m, e, ops))?;
        let r = similar::get_diff_ratio(&ops, n, m);
        if !(0.0..=1.0).contains(&r) || (r == 1.0) != (n == m) {
            return Err(format!("{} on {} and {} zero-sized items: ratio {}", name, n, m, r));
        }
        fp.add(ops_fp(&ops));
    }
    Ok(fp.0)
}

/// every expiry point of one input: returns (#runs, transitions, fingerprint of all outcomes)
pub fn c02_deadline_input(
    alg: Algorithm,
    old: &[u8],
    new: &[u8],
    normal_form_too: bool,
    only_normal_form: bool,
) -> Result<(u64, u64, u64, u64), String> {
    let (n, m) = (old.len(), new.len());
    let (ops_inf, pinf) = cap_deadline(alg, old, new, u64::MAX)?;
    let mut fp = Fp::new();
    fp.add(ops_fp(&ops_inf));
    let mut runs = 1;
    let mut transitions = ops_inf.len() as u64;
    let check = |ops: &[DiffOp], k: u64| -> Result<(), String> {
        let what = format!("capture_diff_deadline, clock expiring at probe {}", k);
        if !only_normal_form {
            c02_clauses(ops, old, 0..n, new, 0..m, &what)?;
            check_ratio(ops, old, new, &what)?;
        }
        if normal_form_too {
            normal_form(ops, old, new).map_err(|e| format!("{}: {} [ops: {:?}]", what, e, ops))?;
        }
        Ok(())
    };
    check(&ops_inf, u64::MAX)?;
    for k in 0..pinf {
        let (ops, _) = cap_deadline(alg, old, new, k)?;
        check(&ops, k)?;
        fp.add(ops_fp(&ops));
        transitions += ops.len() as u64;
        runs += 1;
    }
    Ok((runs, transitions, fp.0, pinf))
}

fn deadline_scopes(tier: Tier) -> Vec<Scope> {
    match tier {
        Tier::Quick => vec![
            Scope::P { k: 3, n: 6 },
            Scope::P { k: 2, n: 7 },
            Scope::R { l: 8 },
        ],
        Tier::Thorough => vec![
            Scope::P { k: 3, n: 7 },
            Scope::P { k: 2, n: 9 },
            Scope::P { k: 4, n: 5 },
            Scope::R { l: 10 },
        ],
    }
}

fn pair_scopes(tier: Tier) -> Vec<Scope> {
    match tier {
        Tier::Quick => vec![
            Scope::P { k: 3, n: 6 },
            Scope::P { k: 2, n: 8 },
            Scope::R { l: 9 },
        ],
        Tier::Thorough => vec![
            Scope::P { k: 3, n: 7 },
            Scope::P { k: 2, n: 10 },
            Scope::P { k: 4, n: 6 },
            Scope::R { l: 11 },
        ],
    }
}

pub fn c02_run(cfg: &RunCfg) -> CheckReport {
    let mut rep = CheckReport::new(
        "exploration",
        "part 'pairs': every (algorithm, old, new) from the listed scopes through 5 capture entry points at full range and capture_diff on 8 sub-range embeddings; non-trivial: both sides non-empty and the ops contain at least one Equal and one change. part 'deadline': every (algorithm, old, new, k) with the virtual clock expiring at probe k for every k up to the probe count of the never-expiring run; one case per (algorithm, input) covering all its k; non-trivial: the run makes at least one probe. Cases are distinct by construction (later scopes skip pairs of earlier ones).",
    );
    rep.assume("carried indices of Delete/Insert are not examined (C11)");
    rep.assume("virtual clock hook H1 is the only clock access of the diff path");
    let space = PairSpace::new(pair_scopes(cfg.tier));
    let ex = explore(cfg, space.nshards(), |shard, acc| {
        space.for_each(shard, |old, new| {
            for &alg in ALGS.iter() {
                match c02_pair(alg, old, new) {
                    Ok(o) => {
                        if acc.want_sample() {
                            acc.sample(seq_case(alg, old, new));
                        }
                        acc.ok(o.nontrivial, o.transitions, o.fp);
                    }
                    Err(e) => acc.violation(|| (seq_case(alg, old, new), e)),
                }
                if acc.stop() {
                    return false;
                }
            }
            true
        });
    });
    rep.part("pairs", json!({"scopes": space.describe(), "entry_points": CAP_ENTRIES, "offsets": format!("{:?}", OFFSETS)}), ex);

    let dspace = PairSpace::new(deadline_scopes(cfg.tier));
    let ex = explore(cfg, dspace.nshards(), |shard, acc| {
        dspace.for_each(shard, |old, new| {
            for &alg in ALGS.iter() {
                match c02_deadline_input(alg, old, new, false, false) {
                    Ok((runs, tr, fp, pinf)) => {
                        if acc.want_sample() {
                            let mut c = seq_case(alg, old, new);
                            c["expiry_probes_explored"] = json!(pinf);
                            acc.sample(c);
                        }
                        acc.count("expiry_runs", runs);
                        acc.max("max_probes", pinf as f64, || format!("{:?} {:?} {:?}", alg, old, new));
                        acc.ok(pinf > 0, tr, fp);
                    }
                    Err(e) => acc.violation(|| {
                        let mut c = seq_case(alg, old, new);
                        c["deadline"] = json!(true);
                        (c, e)
                    }),
                }
                if acc.stop() {
                    return false;
                }
            }
            true
        });
    });
    rep.part("deadline", json!({"scopes": dspace.describe(), "expiry": "every probe index k in 0..probes(never-expiring run), plus never"}), ex);
    if !rep.has_violation() {
        // aliasing: old and new are views into one buffer; zero-sized items
        let bufs: Vec<Vec<u8>> = match cfg.tier {
            Tier::Quick => {
                let mut v = seqs(3, 6);
                v.extend(seqs(2, 8).into_iter().filter(|s| s.len() > 6));
                v
            }
            Tier::Thorough => {
                let mut v = seqs(3, 7);
                v.extend(seqs(2, 10).into_iter().filter(|s| s.len() > 7));
                v.extend(seqs(4, 6).into_iter().filter(|s| s.contains(&3)));
                v
            }
        };
        let zmax = 9usize;
        let nz = (zmax + 1) * (zmax + 1);
        let ex = explore(cfg, bufs.len() + nz, |shard, acc| {
            for &alg in ALGS.iter() {
                if shard < bufs.len() {
                    let buf = &bufs[shard];
                    match c02_aliased(alg, buf) {
                        Ok(o) => {
                            if shard % 97 == 0 {
                                acc.sample(json!({"algorithm": alg_name(alg), "aliased_buffer": buf}));
                            }
                            acc.ok(o.nontrivial, o.transitions, o.fp);
                        }
                        Err(e) => acc.violation(|| (json!({"algorithm": alg_name(alg), "aliased_buffer": buf}), e)),
                    }
                } else {
                    let (n, m) = ((shard - bufs.len()) / (zmax + 1), (shard - bufs.len()) % (zmax + 1));
                    match c02_zero_sized(alg, n, m) {
                        Ok(fp) => acc.ok(n > 0 && m > 0, 1, fp ^ ((n * 64 + m) as u64)),
                        Err(e) => acc.violation(|| (json!({"algorithm": alg_name(alg), "zero_sized": [n, m]}), e)),
                    }
                }
            }
        });
        rep.part(
            "aliased-views",
            json!({"buffers": match cfg.tier { Tier::Quick => "all sequences over 3 symbols up to length 6 and over 2 symbols of length 7..8", Tier::Thorough => "all sequences over 3 symbols up to length 7, over 2 symbols of length 8..10, over 4 symbols up to length 6" },
                   "views": "every pair of sub-slices (old=buf[i..j], new=buf[k..l]) of the one buffer",
                   "entry_points": ["capture_diff_slices", "capture_diff_slices_deadline(None)", "capture_diff (same sequence, two ranges)", "TextDiff::diff_slices (token slices of one vector)", "TextDiff::diff_chars (str views of one string)", "TextDiff::diff_lines (str views of one string)"],
                   "zero_sized_items": format!("all (n, m) in 0..={} of unit-type vectors", zmax)}),
            ex,
        );
    }
    if !rep.has_violation() {
        large::run_part(cfg, &mut rep, &ALGS, &|a| if a == Algorithm::Lcs { 300 } else { usize::MAX }, c02_large);
    }
    if !rep.has_violation() {
        // size-triggered paths: LCS beyond 2^20 / 2^24 table cells, more than 2^16 distinct items
        let mut extra: Vec<(Algorithm, LargeInput)> = vec![];
        for i in large::lcs_big_for(cfg.tier, true) {
            // (the biggest tables get the light variant below)
            if large::lcs_cells(&i) <= 20_000_000 {
                extra.push((Algorithm::Lcs, i));
            }
        }
        for i in large::wide() {
            for &a in ALGS.iter() {
                if a != Algorithm::Lcs || large::lcs_affordable(&i) {
                    extra.push((a, i.clone()));
                }
            }
        }
        let ex = explore(cfg, extra.len(), |shard, acc| {
            let (alg, inp) = &extra[shard];
            match c02_large(*alg, inp) {
                Ok((nt, tr, fp)) => {
                    acc.sample(large::case_json(*alg, inp, cfg.seed));
                    acc.ok(nt, tr, fp);
                }
                Err(e) => acc.violation(|| (large::case_json(*alg, inp, cfg.seed), format!("{}: {}", inp.name, e))),
            }
        });
        rep.part("huge-size-triggers", json!({"inputs": extra.iter().map(|(a, i)| format!("{} {}", alg_name(*a), i.name)).collect::<Vec<_>>()}), ex);
    }
    if !rep.has_violation() {
        // the biggest LCS tables: capture_diff only (valid script, applies, ratio)
        let big: Vec<LargeInput> = large::lcs_big_for(cfg.tier, true).into_iter().filter(|i| large::lcs_cells(i) > 20_000_000).collect();
        let ex = explore(cfg, big.len(), |shard, acc| {
            let inp = &big[shard];
            let (old, new) = (&inp.old[..], &inp.new[..]);
            let r = cap32(Algorithm::Lcs, old, new).and_then(|ops| {
                validate_ops(&ops, old, 0..old.len(), new, 0..new.len(), false)?;
                apply_ops(&ops, old, 0..old.len(), new, 0..new.len())?;
                Ok(ops)
            });
            match r {
                Ok(ops) => {
                    acc.sample(large::case_json(Algorithm::Lcs, inp, cfg.seed));
                    acc.ok(true, ops.len() as u64, ops_fp(&ops));
                    acc.ok(true, ops.len() as u64, ops_fp(&ops) ^ 1);
                }
                Err(e) => acc.violation(|| (large::case_json(Algorithm::Lcs, inp, cfg.seed), format!("{}: capture_diff: {}", inp.name, e))),
            }
        });
        rep.part("lcs-beyond-2^27-cells", json!({"inputs": big.iter().map(|i| i.name.clone()).collect::<Vec<_>>()}), ex);
    }
    if !rep.has_violation() {
        // more than 2^24 items in total, one item different: the ratio must still be < 1.0
        let ex = explore(cfg, 3, |shard, acc| {
            let n = 1usize << [23, 24, 25][shard];
            let old: Vec<u8> = vec![7; n];
            let mut new = old.clone();
            new.push(9);
            let r = subject(|| {
                let ops = similar::capture_diff_slices(Algorithm::Myers, &old, &new);
                let r = similar::get_diff_ratio(&ops, old.len(), new.len());
                (ops, r)
            });
            match r {
                Err(p) => acc.violation(|| (json!({"huge_ratio": n}), format!("panic: {}", p))),
                Ok((ops, r)) => {
                    if !(0.0..=1.0).contains(&r) || r == 1.0 {
                        acc.violation(|| {
                            (
                                json!({"huge_ratio": n}),
                                format!(
                                    "{} equal items against the same plus one appended: ops {:?}, ratio {} (must lie in 0..=1 and be 1.0 only for equal inputs)",
                                    n, ops, r
                                ),
                            )
                        });
                    } else {
                        acc.sample(json!({"items": n, "ratio": r}));
                        acc.ok(true, ops.len() as u64, r.to_bits() as u64);
                    }
                }
            }
        });
        rep.part("ratio-of-huge-near-identical-inputs", json!({"sizes": ["2^23", "2^24", "2^25"], "edit": "one item appended"}), ex);
    }
    rep
}

pub fn c02_replay(case: &Value) -> Result<String, String> {
    if let Some(n) = case.get("huge_ratio").and_then(|x| x.as_u64()) {
        let old: Vec<u8> = vec![7; n as usize];
        let mut new = old.clone();
        new.push(9);
        let ops = similar::capture_diff_slices(Algorithm::Myers, &old, &new);
        let r = similar::get_diff_ratio(&ops, old.len(), new.len());
        return if (0.0..=1.0).contains(&r) && r != 1.0 {
            Ok(format!("holds; ratio {}", r))
        } else {
            Err(format!("{} equal items against the same plus one appended: ratio {}", n, r))
        };
    }
    if let Some(r) = large::resolve(case) {
        let (alg, inp) = r?;
        return c02_large(alg, &inp).map(|o| format!("holds; fingerprint {:x}", o.2));
    }
    if case.get("aliased_buffer").is_some() {
        let alg = parse_alg(case)?;
        let buf = parse_seq(case, "aliased_buffer")?;
        return c02_aliased(alg, &buf).map(|o| format!("holds; fingerprint {:x}", o.fp));
    }
    if let Some(z) = case.get("zero_sized").and_then(|x| x.as_array()) {
        let alg = parse_alg(case)?;
        let (n, m) = (z[0].as_u64().unwrap_or(0) as usize, z[1].as_u64().unwrap_or(0) as usize);
        return c02_zero_sized(alg, n, m).map(|fp| format!("holds; fingerprint {:x}", fp));
    }
    let alg = parse_alg(case)?;
    let old = parse_seq(case, "old")?;
    let new = parse_seq(case, "new")?;
    if case.get("deadline").is_some() {
        c02_deadline_input(alg, &old, &new, false, false).map(|o| format!("holds; {} expiry runs, fingerprint {:x}", o.0, o.2))
    } else {
        c02_pair(alg, &old, &new).map(|o| format!("holds; fingerprint {:x}", o.fp))
    }
}

// ---------------------------------------------------------------------------------------
// C09
// ---------------------------------------------------------------------------------------

pub fn c09_pair(alg: Algorithm, old: &[u8], new: &[u8]) -> Result<Out, String> {
    let mut transitions = 0;
    let mut first = None;
    for e in 0..CAP_ENTRIES.len() {
        let ops = cap_entry(e, alg, old, new)?;
        normal_form(&ops, old, new).map_err(|x| format!("{}: {} [ops: {:?}]", CAP_ENTRIES[e], x, ops))?;
        transitions += ops.len() as u64;
        if first.is_none() {
            first = Some(ops);
        }
    }
    for &(po, pn) in OFFSETS.iter().skip(1) {
        for mode in 0..2 {
            let (ops, fo, fnw) = cap_embedded(alg, old, new, po, pn, mode)?;
            transitions += ops.len() as u64;
            normal_form(&ops, &fo, &fnw).map_err(|x| {
                format!(
                    "capture_diff on sub-ranges old {:?} new {:?} of old={:?} new={:?}: {} [ops: {:?}]",
                    po..po + old.len(),
                    pn..pn + new.len(),
                    fo,
                    fnw,
                    x,
                    ops
                )
            })?;
        }
    }
    // different element types on the two sides; the new type's own equality is finer than its
    // equality with old items (every new item carries its own tag), and the diff is defined by
    // the cross-type equality alone
    {
        let lo: Vec<crate::instr::Lo> = old.iter().map(|&x| crate::instr::Lo(x as u32)).collect();
        let tg = crate::instr::tagged(new);
        let ops = capture(alg, &lo[..], 0..old.len(), &tg[..], 0..new.len())
            .map_err(|e| format!("old items Lo(u32), new items Tagged{{v,tag}} (own Eq finer than Tagged == Lo): {}", e))?;
        validate_ops(&ops, old, 0..old.len(), new, 0..new.len(), false)
            .and_then(|_| normal_form(&ops, old, new))
            .map_err(|x| format!("old items Lo(u32), new items Tagged{{v,tag}} (own Eq finer than Tagged == Lo): {} [ops: {:?}]", x, ops))?;
        transitions += ops.len() as u64;
    }
    let ops = first.unwrap();
    let n_change = ops.iter().filter(|o| o.tag() != similar::DiffTag::Equal).count();
    Ok(Out {
        nontrivial: ops.len() >= 2 && n_change >= 1,
        transitions,
        fp: ops_fp(&ops),
    })
}

pub fn c09_run(cfg: &RunCfg) -> CheckReport {
    let mut rep = CheckReport::new(
        "exploration",
        "part 'pairs': every (algorithm, old, new) from the listed scopes through 5 capture entry points and 6 sub-range embeddings; non-trivial: at least two ops of which one is a change. part 'deadline': every (algorithm, input) with every expiry probe k (virtual clock); non-trivial: at least one probe is made. Cases distinct by construction.",
    );
    rep.assume("virtual clock hook H1 is the only clock access of the diff path");
    let space = PairSpace::new(pair_scopes(cfg.tier));
    let ex = explore(cfg, space.nshards(), |shard, acc| {
        space.for_each(shard, |old, new| {
            for &alg in ALGS.iter() {
                match c09_pair(alg, old, new) {
                    Ok(o) => {
                        if acc.want_sample() {
                            acc.sample(seq_case(alg, old, new));
                        }
                        acc.ok(o.nontrivial, o.transitions, o.fp);
                    }
                    Err(e) => acc.violation(|| (seq_case(alg, old, new), e)),
                }
                if acc.stop() {
                    return false;
                }
            }
            true
        });
    });
    rep.part("pairs", json!({"scopes": space.describe(), "entry_points": CAP_ENTRIES}), ex);
    let dspace = PairSpace::new(deadline_scopes(cfg.tier));
    let ex = explore(cfg, dspace.nshards(), |shard, acc| {
        dspace.for_each(shard, |old, new| {
            for &alg in ALGS.iter() {
                match c02_deadline_input(alg, old, new, true, true) {
                    Ok((runs, tr, fp, pinf)) => {
                        if acc.want_sample() {
                            let mut c = seq_case(alg, old, new);
                            c["expiry_probes_explored"] = json!(pinf);
                            acc.sample(c);
                        }
                        acc.count("expiry_runs", runs);
                        acc.ok(pinf > 0, tr, fp);
                    }
                    Err(e) => acc.violation(|| {
                        let mut c = seq_case(alg, old, new);
                        c["deadline"] = json!(true);
                        (c, e)
                    }),
                }
                if acc.stop() {
                    return false;
                }
            }
            true
        });
    });
    rep.part("deadline", json!({"scopes": dspace.describe(), "expiry": "every probe index"}), ex);
    if !rep.has_violation() {
        large::run_part(cfg, &mut rep, &ALGS, &|a| if a == Algorithm::Lcs { 300 } else { usize::MAX }, c09_large);
    }
    rep
}

pub fn c09_replay(case: &Value) -> Result<String, String> {
    if let Some(r) = large::resolve(case) {
        let (alg, inp) = r?;
        return c09_large(alg, &inp).map(|o| format!("holds; fingerprint {:x}", o.2));
    }
    let alg = parse_alg(case)?;
    let old = parse_seq(case, "old")?;
    let new = parse_seq(case, "new")?;
    if case.get("deadline").is_some() {
        c02_deadline_input(alg, &old, &new, true, true).map(|o| format!("holds; {} expiry runs, fingerprint {:x}", o.0, o.2))
    } else {
        c09_pair(alg, &old, &new).map(|o| format!("holds; fingerprint {:x}", o.fp))
    }
}

// ---------------------------------------------------------------------------------------
// C03
// ---------------------------------------------------------------------------------------

pub fn c03_pair(alg: Algorithm, old: &[u8], new: &[u8]) -> Result<Out, String> {
    let (n, m) = (old.len(), new.len());
    let l = lcs_len(old, new);
    let want = n + m - 2 * l;
    let mut transitions = 0;
    // raw stream, full range and embedded
    let base = raw_stream(alg, 0, old, 0..n, new, 0..m)?;
    transitions += base.len() as u64;
    let st = validate_stream(&base, old, 0..n, new, 0..m, true)
        .map_err(|e| format!("raw stream invalid: {}", e))?;
    if st.deleted + st.inserted != want {
        return Err(format!(
            "raw {} script deletes {} and inserts {} items; a shortest script has {} (N={} M={} LCS={})",
            alg_name(alg), st.deleted, st.inserted, want, n, m, l
        ));
    }
    // minimality does not depend on what else the library does meanwhile or did before: a hook
    // that re-enters the library from inside its callbacks, and the same diff right after
    // diffs of other inputs on this thread (longer, shorter, with repeats on one side only)
    {
        let mut re = crate::instr::Reentrant::new(crate::instr::Rec::new());
        let r = subject(|| raw_into(alg, 0, &mut re, old, 0..n, new, 0..m, None));
        match r {
            Err(p) => return Err(format!("hook that runs nested diffs from inside its callbacks: panic: {}", p)),
            Ok(Err(k)) => return Err(format!("hook that runs nested diffs from inside its callbacks: diff returned Err({})", k)),
            Ok(Ok(())) => {}
        }
        let st = validate_stream(&re.inner.calls, old, 0..n, new, 0..m, true)
            .map_err(|e| format!("hook that runs nested diffs from inside its callbacks: raw stream invalid: {}", e))?;
        if st.deleted + st.inserted != want {
            return Err(format!(
                "raw {} script seen by a hook that runs nested diffs from inside its callbacks deletes {} and inserts {} items; a shortest script has {} (N={} M={} LCS={}) [stream: {}]",
                alg_name(alg), st.deleted, st.inserted, want, n, m, l, crate::instr::calls_to_string(&re.inner.calls)
            ));
        }
        const EARLIER: [(&[u8], &[u8]); 3] = [(&[0, 0, 1, 1, 2, 2, 0, 0, 1, 1], &[0, 1, 2]), (&[2], &[1, 1, 2, 2, 0, 0, 2, 1]), (&[], &[0])];
        for (a, b) in EARLIER.iter() {
            let s = subject(|| {
                for alg2 in ALGS.iter() {
                    let mut sink = crate::instr::Rec::new();
                    let _ = raw_into(*alg2, 0, &mut sink, *a, 0..a.len(), *b, 0..b.len(), None);
                }
            });
            if let Err(p) = s {
                return Err(format!("earlier diff of {:?} / {:?}: panic: {}", a, b, p));
            }
            let s = raw_stream(alg, 0, old, 0..n, new, 0..m)?;
            let st = validate_stream(&s, old, 0..n, new, 0..m, true).map_err(|e| format!("raw stream invalid: {}", e))?;
            if st.deleted + st.inserted != want {
                return Err(format!(
                    "raw {} script computed right after diffs of {:?} / {:?} on the same thread deletes {} and inserts {} items; a shortest script has {}",
                    alg_name(alg), a, b, st.deleted, st.inserted, want
                ));
            }
        }
    }
    for &(po, pn) in OFFSETS.iter().skip(1) {
        let fo = embed(old, po, 2, new);
        let fnw = embed(new, pn, 2, old);
        let s = raw_stream(alg, 0, &fo[..], po..po + n, &fnw[..], pn..pn + m)?;
        transitions += s.len() as u64;
        let st = validate_stream(&s, &fo, po..po + n, &fnw, pn..pn + m, true)
            .map_err(|e| format!("raw stream on sub-ranges invalid: {}", e))?;
        if st.deleted + st.inserted != want {
            return Err(format!(
                "raw {} script on sub-ranges old {:?} new {:?} of old={:?} new={:?} deletes {} and inserts {}; shortest is {}",
                alg_name(alg), po..po + n, pn..pn + m, fo, fnw, st.deleted, st.inserted, want
            ));
        }
        let (ops, _, _) = cap_embedded(alg, old, new, po, pn, 1)?;
        let st = validate_ops(&ops, &fo, po..po + n, &fnw, pn..pn + m, false)
            .map_err(|e| format!("captured ops on sub-ranges invalid: {}", e))?;
        if st.deleted + st.inserted != want || st.equal_items != l {
            return Err(format!(
                "captured {} ops on sub-ranges old {:?} new {:?} of old={:?} new={:?}: {} deleted {} inserted {} equal; shortest script has {} changes and {} equal [ops: {:?}]",
                alg_name(alg), po..po + n, pn..pn + m, fo, fnw, st.deleted, st.inserted, st.equal_items, want, l, ops
            ));
        }
    }
    let mut fp = 0;
    for e in [0usize, 2, 4] {
        let ops = cap_entry(e, alg, old, new)?;
        transitions += ops.len() as u64;
        let st = validate_ops(&ops, old, 0..n, new, 0..m, false)
            .map_err(|x| format!("{}: {}", CAP_ENTRIES[e], x))?;
        if st.deleted + st.inserted != want {
            return Err(format!(
                "{}: captured {} ops delete {} and insert {} items; a shortest script has {} [ops: {:?}]",
                CAP_ENTRIES[e], alg_name(alg), st.deleted, st.inserted, want, ops
            ));
        }
        if st.equal_items != l {
            return Err(format!(
                "{}: Equal ops cover {} items, LCS is {}",
                CAP_ENTRIES[e], st.equal_items, l
            ));
        }
        let r = similar::get_diff_ratio(&ops, n, m);
        let expect = if n + m == 0 {
            1.0
        } else {
            2.0 * l as f32 / (n + m) as f32
        };
        if (r - expect).abs() > 1e-6 {
            return Err(format!(
                "{}: ratio {} but 2*LCS/(N+M) = {}",
                CAP_ENTRIES[e], r, expect
            ));
        }
        if e == 4 {
            let (o, nn) = (toks(old), toks(new));
            let r2 = subject(|| {
                TextDiff::configure()
                    .algorithm(alg)
                    .diff_slices(&o, &nn)
                    .ratio()
            })
            .map_err(|p| format!("TextDiff::ratio: panic: {}", p))?;
            if (r2 - expect).abs() > 1e-6 {
                return Err(format!("TextDiff::ratio {} but 2*LCS/(N+M) = {}", r2, expect));
            }
        }
        fp = ops_fp(&ops);
    }
    Ok(Out {
        nontrivial: l > 0 && l < n.min(m),
        transitions,
        fp,
    })
}

const MIN_ALGS: [Algorithm; 2] = [Algorithm::Myers, Algorithm::Lcs];

pub fn c03_run(cfg: &RunCfg) -> CheckReport {
    let mut rep = CheckReport::new(
        "exploration",
        "every (algorithm in {Myers, LCS}, old, new) from the listed scopes: raw stream at full range and on 3 sub-range embeddings, captured ops through capture_diff, capture_diff_slices, TextDiff and on the sub-ranges; non-trivial: 0 < LCS < min(N,M). Cases distinct by construction.",
    );
    rep.assume("oracle: O(NM) dynamic-programming LCS length in the harness; ratio compared with the f32 expression 2.0*L as f32/(N+M) as f32");
    let space = PairSpace::new(pair_scopes(cfg.tier));
    let ex = explore(cfg, space.nshards(), |shard, acc| {
        space.for_each(shard, |old, new| {
            for &alg in MIN_ALGS.iter() {
                match c03_pair(alg, old, new) {
                    Ok(o) => {
                        if acc.want_sample() {
                            acc.sample(seq_case(alg, old, new));
                        }
                        acc.ok(o.nontrivial, o.transitions, o.fp);
                    }
                    Err(e) => acc.violation(|| (seq_case(alg, old, new), e)),
                }
                if acc.stop() {
                    return false;
                }
            }
            true
        });
    });
    rep.part("pairs", json!({"scopes": space.describe(), "algorithms": ["Myers", "Lcs"]}), ex);
    if !rep.has_violation() {
        large::run_part(cfg, &mut rep, &MIN_ALGS, &|a| if a == Algorithm::Lcs { 300 } else { usize::MAX }, c03_large);
    }
    if !rep.has_violation() {
        let big = large::lcs_big_for(cfg.tier, true);
        let ex = explore(cfg, big.len(), |shard, acc| {
            let inp = &big[shard];
            match c03_large(Algorithm::Lcs, inp) {
                Ok((nt, tr, fp)) => {
                    acc.sample(large::case_json(Algorithm::Lcs, inp, cfg.seed));
                    acc.ok(nt, tr, fp);
                }
                Err(e) => acc.violation(|| (large::case_json(Algorithm::Lcs, inp, cfg.seed), format!("{}: {}", inp.name, e))),
            }
        });
        rep.part("lcs-huge-sides", json!({"inputs": big.iter().map(|i| i.name.clone()).collect::<Vec<_>>()}), ex);
    }
    rep
}

pub fn c03_replay(case: &Value) -> Result<String, String> {
    if let Some(r) = large::resolve(case) {
        let (alg, inp) = r?;
        return c03_large(alg, &inp).map(|o| format!("holds; fingerprint {:x}", o.2));
    }
    let alg = parse_alg(case)?;
    let old = parse_seq(case, "old")?;
    let new = parse_seq(case, "new")?;
    c03_pair(alg, &old, &new).map(|o| format!("holds; fingerprint {:x}", o.fp))
}

// ---------------------------------------------------------------------------------------
// C11 (known finding KF1: attribution by call site through hook H2)
// ---------------------------------------------------------------------------------------

pub enum Exact {
    Ok(Out),
    /// fails, and the failure is explained by the compaction-swap site (passes with the
    /// repair armed and at least one swap happened)
    Kf1(String),
    Fail(String),
}

fn c11_once(alg: Algorithm, old: &[u8], new: &[u8], repair: bool, exact: bool) -> Result<(Out, u64), String> {
    let (n, m) = (old.len(), new.len());
    let mut transitions = 0;
    let mut swaps = 0;
    let mut first = None;
    let run = |f: &mut dyn FnMut() -> Vec<DiffOp>, swaps: &mut u64| -> Result<Vec<DiffOp>, String> {
        let r = subject(|| {
            similar::verif::take_swaps();
            similar::verif::set_swap_repair(repair);
            let ops = f();
            *swaps += similar::verif::take_swaps();
            ops
        });
        r.map_err(|p| format!("panic: {}", p))
    };
    for e in [0usize, 2, 4, 5, 6, 7] {
        let ops = run(
            &mut || match e {
                0 => similar::capture_diff(alg, old, 0..n, new, 0..m),
                2 => similar::capture_diff_slices(alg, old, new),
                // the capture pipeline put together by the caller, the sink staying with the
                // caller (adapters composed by reference / through the finish-suppressing wrapper)
                5 => {
                    let mut cap = similar::algorithms::Capture::new();
                    {
                        let mut h = similar::algorithms::Compact::new(similar::algorithms::Replace::new(&mut cap), old, new);
                        similar::algorithms::diff(alg, &mut h, old, 0..n, new, 0..m).unwrap();
                    }
                    cap.into_ops()
                }
                6 => {
                    let mut cap = similar::algorithms::Capture::new();
                    {
                        let mut h = similar::algorithms::Replace::new(&mut cap);
                        similar::algorithms::diff(alg, &mut h, old, 0..n, new, 0..m).unwrap();
                    }
                    cap.into_ops()
                }
                7 => {
                    let mut h = similar::algorithms::Compact::new(
                        similar::algorithms::Replace::new(similar::algorithms::NoFinishHook::new(similar::algorithms::Capture::new())),
                        old,
                        new,
                    );
                    similar::algorithms::diff(alg, &mut h, old, 0..n, new, 0..m).unwrap();
                    h.into_inner().into_inner().into_inner().into_ops()
                }
                _ => {
                    let (o, nn) = (toks(old), toks(new));
                    TextDiff::configure()
                        .algorithm(alg)
                        .diff_slices(&o, &nn)
                        .ops()
                        .to_vec()
                }
            },
            &mut swaps,
        )?;
        transitions += ops.len() as u64;
        validate_ops(&ops, old, 0..n, new, 0..m, exact).map_err(|x| {
            format!(
                "{}: {} [ops: {:?}]",
                match e {
                    5 => "algorithms::diff into Compact<Replace<&mut Capture>>",
                    6 => "algorithms::diff into Replace<&mut Capture>",
                    7 => "algorithms::diff into Compact<Replace<NoFinishHook<Capture>>>",
                    _ => CAP_ENTRIES[e],
                },
                x,
                ops
            )
        })?;
        if first.is_none() {
            first = Some(ops);
        }
    }
    for &(po, pn) in OFFSETS.iter().skip(1) {
        let fo = embed(old, po, 2, new);
        let fnw = embed(new, pn, 2, old);
        let ops = run(
            &mut || similar::capture_diff(alg, &fo[..], po..po + n, &fnw[..], pn..pn + m),
            &mut swaps,
        )?;
        transitions += ops.len() as u64;
        validate_ops(&ops, &fo, po..po + n, &fnw, pn..pn + m, exact).map_err(|x| {
            format!(
                "capture_diff on sub-ranges old {:?} new {:?} of old={:?} new={:?}: {} [ops: {:?}]",
                po..po + n,
                pn..pn + m,
                fo,
                fnw,
                x,
                ops
            )
        })?;
    }
    let ops = first.unwrap();
    let has_carried = ops
        .iter()
        .any(|o| matches!(o.tag(), similar::DiffTag::Delete | similar::DiffTag::Insert));
    Ok((
        Out {
            nontrivial: has_carried && ops.len() >= 2,
            transitions,
            fp: ops_fp(&ops),
        },
        swaps,
    ))
}

pub fn c11_pair(alg: Algorithm, old: &[u8], new: &[u8]) -> Exact {
    match c11_once(alg, old, new, false, true) {
        Ok((o, _)) => Exact::Ok(o),
        Err(e) => {
            // KF1 only ever leaves *carried* indices stale (Delete.new_index, Insert.old_index).
            // A failing case whose ops are not even a valid script (consuming ranges wrong) is a
            // different defect, whatever the repair switch does to it.
            if let Err(e2) = c11_once(alg, old, new, false, false) {
                return Exact::Fail(format!("{} [not a carried-index problem: {}]", e, e2));
            }
            match c11_once(alg, old, new, true, true) {
                Ok((_, swaps)) if swaps > 0 => Exact::Kf1(e),
                _ => Exact::Fail(e),
            }
        }
    }
}

pub fn c11_run(cfg: &RunCfg) -> CheckReport {
    let mut rep = CheckReport::new(
        "exploration",
        "every (algorithm, old, new) from the listed scopes: captured ops through capture_diff, capture_diff_slices, TextDiff::ops at full range and capture_diff on 3 sub-range embeddings; every op's both indices must equal the cursor. Non-trivial: the op list has >= 2 ops and contains a Delete or Insert (an op with a carried index). Cases distinct by construction. A failing case is re-run with the H2 swap repair armed: passes then and >= 1 swap happened => instance of known finding KF1.",
    );
    rep.assume("H2 attribution hook recomputes carried indices right after each compaction swap; it is armed only to attribute an already failing case");
    let kf = KnownFindings::load(&cfg.verif_dir);
    let kf1_listed = kf.listed("C11", "KF1");
    let space = PairSpace::new(pair_scopes(cfg.tier));
    let ex = explore(cfg, space.nshards(), |shard, acc| {
        space.for_each(shard, |old, new| {
            for &alg in ALGS.iter() {
                match c11_pair(alg, old, new) {
                    Exact::Ok(o) => {
                        if acc.want_sample() {
                            acc.sample(seq_case(alg, old, new));
                        }
                        acc.ok(o.nontrivial, o.transitions, o.fp);
                    }
                    Exact::Kf1(e) if kf1_listed => {
                        acc.known("KF1", || format!("{} old={:?} new={:?}: {}", alg_name(alg), old, new, e))
                    }
                    Exact::Kf1(e) | Exact::Fail(e) => {
                        acc.violation(|| (seq_case(alg, old, new), e))
                    }
                }
                if acc.stop() {
                    return false;
                }
            }
            true
        });
    });
    rep.part("pairs", json!({"scopes": space.describe()}), ex);
    if rep.has_violation() {
        return rep;
    }
    let inputs = large::all(cfg.tier, cfg.seed);
    let mut work = vec![];
    for (i, inp) in inputs.iter().enumerate() {
        for &a in ALGS.iter() {
            if a != Algorithm::Lcs || large::lcs_affordable(inp) {
                work.push((a, i));
            }
        }
    }
    let ex = explore(cfg, work.len(), |shard, acc| {
        let (alg, i) = work[shard];
        let inp = &inputs[i];
        match c11_large(alg, inp) {
            Exact::Ok(o) => {
                if shard % 97 == 0 {
                    acc.sample(large::case_json(alg, inp, cfg.seed));
                }
                acc.ok(o.nontrivial, o.transitions, o.fp)
            }
            Exact::Kf1(e) if kf1_listed => acc.known("KF1", || format!("{} {}: {}", alg_name(alg), inp.name, e)),
            Exact::Kf1(e) | Exact::Fail(e) => {
                acc.violation(|| (large::case_json(alg, inp, cfg.seed), format!("{}: {}", inp.name, e)))
            }
        }
    });
    rep.part("large-families", large::describe(cfg.tier), ex);
    if rep.has_violation() {
        return rep;
    }
    // LCS on the size-trigger inputs (tables beyond 2^20 .. 2^27 cells, sides beyond 2^16)
    let big = large::lcs_big_for(cfg.tier, true);
    let ex = explore(cfg, big.len(), |shard, acc| {
        let inp = &big[shard];
        match c11_large(Algorithm::Lcs, inp) {
            Exact::Ok(o) => {
                acc.sample(large::case_json(Algorithm::Lcs, inp, cfg.seed));
                acc.ok(o.nontrivial, o.transitions, o.fp)
            }
            Exact::Kf1(e) if kf1_listed => acc.known("KF1", || format!("Lcs {}: {}", inp.name, e)),
            Exact::Kf1(e) | Exact::Fail(e) => {
                acc.violation(|| (large::case_json(Algorithm::Lcs, inp, cfg.seed), format!("{}: {}", inp.name, e)))
            }
        }
    });
    rep.part("lcs-huge-tables", json!({"inputs": big.iter().map(|i| i.name.clone()).collect::<Vec<_>>()}), ex);
    rep
}

pub fn c11_replay(case: &Value) -> Result<String, String> {
    if let Some(r) = large::resolve(case) {
        let (alg, inp) = r?;
        return match c11_large(alg, &inp) {
            Exact::Ok(o) => Ok(format!("holds; fingerprint {:x}", o.fp)),
            Exact::Kf1(e) => kf1_or_violation("C11", e),
            Exact::Fail(e) => Err(e),
        };
    }
    let alg = parse_alg(case)?;
    let old = parse_seq(case, "old")?;
    let new = parse_seq(case, "new")?;
    match c11_pair(alg, &old, &new) {
        Exact::Ok(o) => Ok(format!("holds; fingerprint {:x}", o.fp)),
        Exact::Kf1(e) => kf1_or_violation("C11", e),
        Exact::Fail(e) => Err(e),
    }
}

/// replaying a case that the listed known finding KF1 explains is not a violation
pub fn kf1_or_violation(prop: &str, e: String) -> Result<String, String> {
    let dir = std::env::var("VERIF_DIR").unwrap_or_else(|_| "/verif".to_string());
    let kf = KnownFindings::load(&dir);
    if kf.listed(prop, "KF1") {
        Ok(format!(
            "fails, explained by the listed known finding\nKNOWN-FINDING: property={} {} [KF1] ({})",
            prop,
            kf.what("KF1"),
            e
        ))
    } else {
        Err(format!("{} (goes through the compaction swap site, but KF1 is not listed for {})", e, prop))
    }
}
