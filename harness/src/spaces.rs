//! Finite enumeration spaces.  Every generator is exhaustive within its bound and has a
//! fixed order (shortest first), so runs are reproducible.

use serde_json::{json, Value};

/// All sequences over {0..k-1} of length <= n, ordered by length then lexicographically.
pub fn seqs(k: u8, n: usize) -> Vec<Vec<u8>> {
    let mut out: Vec<Vec<u8>> = vec![vec![]];
    let mut start = 0;
    for _len in 1..=n {
        let end = out.len();
        for i in start..end {
            for s in 0..k {
                let mut v = out[i].clone();
                v.push(s);
                out.push(v);
            }
        }
        start = end;
    }
    out
}

/// All restricted-growth strings (canonical representatives of equality patterns) of length
/// <= l, ordered by length then lexicographically.
pub fn rgs_upto(l: usize) -> Vec<Vec<u8>> {
    let mut out: Vec<Vec<u8>> = vec![vec![]];
    let mut start = 0;
    for _len in 1..=l {
        let end = out.len();
        for i in start..end {
            let mx = out[i].iter().map(|&x| x + 1).max().unwrap_or(0);
            for s in 0..=mx {
                let mut v = out[i].clone();
                v.push(s);
                out.push(v);
            }
        }
        start = end;
    }
    out
}

pub fn is_rgs(old: &[u8], new: &[u8]) -> bool {
    let mut mx = 0u8;
    for &x in old.iter().chain(new.iter()) {
        if x > mx {
            return false;
        }
        if x == mx {
            mx += 1;
        }
    }
    true
}

/// A scope of (old,new) pairs.
#[derive(Clone, Debug)]
pub enum Scope {
    /// P(k,n): all ordered pairs of sequences over k symbols, each of length <= n
    P { k: u8, n: usize },
    /// R(l): every restricted-growth string of length <= l cut at every position
    R { l: usize },
}

impl Scope {
    pub fn contains(&self, old: &[u8], new: &[u8]) -> bool {
        match *self {
            Scope::P { k, n } => {
                old.len() <= n
                    && new.len() <= n
                    && old.iter().chain(new.iter()).all(|&x| x < k)
            }
            Scope::R { l } => old.len() + new.len() <= l && is_rgs(old, new),
        }
    }
    pub fn describe(&self) -> String {
        match *self {
            Scope::P { k, n } => format!("P({},{})", k, n),
            Scope::R { l } => format!("R({})", l),
        }
    }
}

enum ScopeData {
    P(Vec<Vec<u8>>),
    R(Vec<Vec<u8>>),
}

/// A union of scopes enumerated without repetition: a pair that belongs to an earlier scope
/// is skipped in the later ones, so every enumerated pair is distinct by construction.
pub struct PairSpace {
    scopes: Vec<Scope>,
    data: Vec<ScopeData>,
    /// (scope index, first item, one-past-last item)
    shards: Vec<(usize, usize, usize)>,
}

const R_CHUNK: usize = 128;

impl PairSpace {
    pub fn new(scopes: Vec<Scope>) -> PairSpace {
        let mut data = vec![];
        let mut shards = vec![];
        for (si, s) in scopes.iter().enumerate() {
            match *s {
                Scope::P { k, n } => {
                    let v = seqs(k, n);
                    for i in 0..v.len() {
                        shards.push((si, i, i + 1));
                    }
                    data.push(ScopeData::P(v));
                }
                Scope::R { l } => {
                    let v = rgs_upto(l);
                    let mut i = 0;
                    while i < v.len() {
                        let e = (i + R_CHUNK).min(v.len());
                        shards.push((si, i, e));
                        i = e;
                    }
                    data.push(ScopeData::R(v));
                }
            }
        }
        PairSpace {
            scopes,
            data,
            shards,
        }
    }

    pub fn nshards(&self) -> usize {
        self.shards.len()
    }

    pub fn describe(&self) -> Value {
        json!(self.scopes.iter().map(|s| s.describe()).collect::<Vec<_>>())
    }

    /// Enumerates every pair of a shard; `f` returns false to stop early.
    pub fn for_each(&self, shard: usize, mut f: impl FnMut(&[u8], &[u8]) -> bool) {
        let (si, lo, hi) = self.shards[shard];
        let earlier = &self.scopes[..si];
        match &self.data[si] {
            ScopeData::P(v) => {
                for i in lo..hi {
                    let old = &v[i];
                    for new in v.iter() {
                        if earlier.iter().any(|s| s.contains(old, new)) {
                            continue;
                        }
                        if !f(old, new) {
                            return;
                        }
                    }
                }
            }
            ScopeData::R(v) => {
                for i in lo..hi {
                    let s = &v[i];
                    for cut in 0..=s.len() {
                        let (old, new) = s.split_at(cut);
                        if earlier.iter().any(|sc| sc.contains(old, new)) {
                            continue;
                        }
                        if !f(old, new) {
                            return;
                        }
                    }
                }
            }
        }
    }
}

/// Sub-range embeddings: (old offset, new offset).  (0,0) is the plain full-range call.
pub const OFFSETS: [(usize, usize); 4] = [(0, 0), (3, 0), (0, 2), (3, 5)];

/// Embeds `seq` at `off` into a longer array with `tail` extra items behind it.  The padding
/// is adversarial: it repeats the items found just inside the boundary (and symbol 0 when the
/// sequence is empty), so a read that strays outside the range finds plausible matches.
pub fn embed(seq: &[u8], off: usize, tail: usize, other: &[u8]) -> Vec<u8> {
    let left = other.first().or(seq.first()).copied().unwrap_or(0);
    let right = other.last().or(seq.last()).copied().unwrap_or(0);
    let mut v = Vec::with_capacity(off + seq.len() + tail);
    v.extend(std::iter::repeat(left).take(off));
    v.extend_from_slice(seq);
    v.extend(std::iter::repeat(right).take(tail));
    v
}

/// Deterministic LCG for the large-input *families* (the family list itself is enumerated).
#[derive(Clone)]
pub struct Lcg(pub u64);
impl Lcg {
    pub fn next(&mut self) -> u64 {
        self.0 = self
            .0
            .wrapping_mul(6364136223846793005)
            .wrapping_add(1442695040888963407);
        self.0 >> 33
    }
    pub fn below(&mut self, n: u64) -> u64 {
        self.next() % n
    }
}

/// next permutation in lexicographic order; false when wrapped around
pub fn next_permutation(v: &mut [u8]) -> bool {
    if v.len() < 2 {
        return false;
    }
    let mut i = v.len() - 1;
    while i > 0 && v[i - 1] >= v[i] {
        i -= 1;
    }
    if i == 0 {
        v.reverse();
        return false;
    }
    let mut j = v.len() - 1;
    while v[j] <= v[i - 1] {
        j -= 1;
    }
    v.swap(i - 1, j);
    v[i..].reverse();
    true
}

pub fn factorial(n: usize) -> u64 {
    (1..=n as u64).product()
}
