#!/bin/bash
# usage: [SEED_WT=<worktree>] tools/verify_seed.sh <name> [check ids to run, default: the property itself]
# Confirms a sub-agent's seeded change in its scratch worktree /tmp/seed_<Cxx>:
#   - the repository's own tests pass with the change (default features and --all-features)
#   - the demonstration fails with the change and passes without it
# then applies SEED/patch.diff to /repo, runs the given quick checks, and reverts /repo.
# Writes /verif/seeded/<Cxx>/{patch.diff,seed_demo.rs,agent_meta.md,meta.json}.
set -u
ID="$1"; shift
CHECKS="${*:-$ID}"
WT="${SEED_WT:-/tmp/seed_$ID}"
OUT="/verif/seeded/$ID"
[ -f "$WT/SEED/patch.diff" ] || { echo "no patch in $WT/SEED"; exit 2; }
mkdir -p "$OUT"
cd "$WT" || exit 2
# normalise: worktree must contain exactly the patch on top of HEAD
git stash -q push --include-untracked -- src/ >/dev/null 2>&1; git checkout -q -- src/ 2>/dev/null
git apply "$WT/SEED/patch.diff" || { echo "patch does not apply to HEAD"; exit 2; }
[ -f tests/seed_demo.rs ] || cp SEED/seed_demo.rs tests/seed_demo.rs 2>/dev/null || { mkdir -p tests; cp SEED/seed_demo.rs tests/seed_demo.rs; }
mv tests/seed_demo.rs /tmp/seed_demo_$ID.rs
T1=$(cargo test --offline 2>&1 | grep -E "^test result" | tr '\n' ' ')
T2=$(cargo test --offline --all-features 2>&1 | grep -E "^test result" | tr '\n' ' ')
mv /tmp/seed_demo_$ID.rs tests/seed_demo.rs
D_WITH=$(cargo test --offline --all-features --test seed_demo 2>&1 | grep -E "^test result" | tr '\n' ' ')
git apply -R "$WT/SEED/patch.diff"
D_WITHOUT=$(cargo test --offline --all-features --test seed_demo 2>&1 | grep -E "^test result" | tr '\n' ' ')
git apply "$WT/SEED/patch.diff"
echo "own tests (default): $T1"
echo "own tests (all features): $T2"
echo "demo with change: $D_WITH"
echo "demo without change: $D_WITHOUT"
cp SEED/patch.diff "$OUT/patch.diff"; cp tests/seed_demo.rs "$OUT/seed_demo.rs"; cp SEED/meta.md "$OUT/agent_meta.md" 2>/dev/null
# run my checks against it: scratch copy of the harness whose path dependency is the agent's
# worktree (patch applied), so /repo is not touched; tools/seeded_all.sh later re-confirms every
# kept change the sanctioned way (git -C /repo apply ...; run; git -C /repo checkout -- .)
SH="/tmp/seedh_$ID"
rm -rf "$SH"; mkdir -p "$SH"
rsync -a --exclude target --exclude target-nounicode /verif/harness/ "$SH/harness/"
sed -i "s#path = \"/repo\"#path = \"$WT\"#" "$SH/harness/Cargo.toml"
cp /verif/known_findings.json "$SH/"
RES=""
cd "$SH/harness"
if ! CARGO_NET_OFFLINE=true RUSTFLAGS="--cfg similar_verif" cargo build --release --offline > "$SH/build.log" 2>&1; then
  echo "harness does not build against the seeded tree"; tail -20 "$SH/build.log"; exit 2
fi
for C in $CHECKS; do
  S=$(date +%s)
  VERIF_DIR="$SH" ./target/release/vcheck "$C" quick > "$SH/run.log" 2>&1; RC=$?
  E=$(date +%s)
  COMPLAINT=$(grep "^complaint:" "$SH/run.log" | head -1 | cut -c1-400)
  echo "check $C: exit=$RC ($((E-S))s) $COMPLAINT"
  RP=$(grep "^VIOLATION" "$SH/run.log" | sed 's/.*replay=//')
  if [ -n "$RP" ]; then VERIF_DIR="$SH" ./target/release/vcheck "$C" --replay "$RP" > "$SH/replay.log" 2>&1; echo "  replay exit=$?"; fi
  RES="$RES$C:exit=$RC;"
done
cd /verif
rm -rf "$SH"
python3 - "$ID" "$T1" "$T2" "$D_WITH" "$D_WITHOUT" "$RES" <<'PY'
import json,sys,os
id,t1,t2,dw,dwo,res=sys.argv[1:7]
out=f"/verif/seeded/{id}/meta.json"
old=json.load(open(out)) if os.path.exists(out) else {}
old.update({"property":id,"own_tests_default_with_change":t1.strip(),"own_tests_all_features_with_change":t2.strip(),
 "demo_with_change":dw.strip(),"demo_without_change":dwo.strip(),
 "checks_run_on_repo_with_patch_applied":{c.split(':')[0]:c.split(':')[1] for c in res.strip(';').split(';') if c},
 "commands":["cd /tmp/seed_%s && cargo test --offline; cargo test --offline --all-features; cargo test --offline --all-features --test seed_demo (with / without patch)"%id,
             "git -C /repo apply seeded/%s/patch.diff; ./run.sh <check> quick; git -C /repo checkout -- ."%id]})
json.dump(old,open(out,"w"),indent=1)
PY
