#!/usr/bin/env python3
"""Regenerates /verif/MANIFEST.json from the table below and validates it against the schema.

A property is claimed only if its check exists in the harness registry (`vcheck --list`).
"""
import json, os, subprocess, sys

HERE = os.path.dirname(os.path.dirname(os.path.abspath(__file__)))

CHECKS = {
    "C01": dict(
        cat="exploration", ref="5/C01",
        technique="bounded exhaustive enumeration of (algorithm, sequence pair, sub-range embedding, entry point) on the real code; cursor-automaton oracle + differential slice/sub-range comparison",
        text="Every pair of sequences in the stated small scopes (all pairs over 2-4 symbols up to length 6-10, every equality pattern up to total length 9-11) is diffed by all three algorithms through 6 entry points and 8 sub-range embeddings; each callback stream is checked by an independent cursor automaton. Exhaustive within scope, no sampling; defects here are shape-triggered (empty side, prefix, offset), which small scopes cover.",
        note="Trusted: the harness's cursor automaton and window Index; element type u8; scopes are finite (see evidence bounds); Index implementations explored: slices, offset windows that refuse outside reads, a wrapped-around VecDeque, one sequence object on both sides; heterogeneous element types (new: PartialEq<old>)."),
    "C02": dict(
        cat="exploration", ref="5/C02",
        technique="bounded exhaustive enumeration of inputs x capture entry points x every deadline-expiry point (virtual clock) on the real code; cursor-automaton + apply/invert oracle",
        text="All pairs in the small scopes through capture_diff, capture_diff_deadline, capture_diff_slices(_deadline) and TextDiff::ops, with no deadline and, on a smaller scope, with the virtual clock expiring at every probe index; the ops are walked by an independent automaton, applied forwards and inverted, and the ratio clauses are evaluated. Part 'aliased-views': old and new are two views of ONE buffer (every pair of sub-slices of every small buffer, 6 entry points) and zero-sized items.",
        note="Trusted: harness oracles; virtual clock hook H1; carried indices of Delete/Insert are C11's business and are not examined here."),
    "C03": dict(
        cat="exploration", ref="5/C03",
        technique="bounded exhaustive enumeration of inputs and sub-ranges on the real code against an independent O(NM) dynamic-programming LCS",
        text="For every pair in scope (full range and sub-range embeddings) the number of deleted+inserted items of Myers and LCS, raw and captured, is compared with N+M-2L from the harness's own DP; equal length total and the ratio formula are checked exactly.",
        note="Trusted: harness DP; f32 ratio computed with the documented expression."),
    "C04": dict(
        cat="exploration", ref="5/C04",
        technique="bounded exhaustive enumeration of text pairs over adversarial character/byte alphabets x tokenizers x algorithms on the real code; concatenation/index oracle",
        text="Every pair of short texts over alphabets containing CR, LF, combining marks, multi-byte scalars and invalid UTF-8 bytes is diffed with all six constructors and three algorithms as str and as [u8]; the changes are concatenated and compared byte-for-byte with the inputs and the index discipline is checked.",
        note="Trusted: harness oracle; alphabets and length bounds in the evidence."),
    "C05": dict(
        cat="exploration", ref="5/C05",
        technique="bounded exhaustive enumeration of line-text pairs x algorithm x radius x header x str/bytes x Display/to_writer on the real code; independent unified-diff parser and strict patch applier as oracle",
        text="Every pair of line texts from small line/terminator alphabets is rendered under all configurations; the output is parsed by an independent structure-driven parser and applied strictly to the old text; headers, positions, markers, context sizes and byte fidelity are checked; the byte sink's answers are enumerated too (writers taking 1 / 3 / all bytes per call, BufWriter, trait object, Interrupted), as are operation sequences on one formatter object (used with other settings first, rendered twice) and every way of consuming iter_hunks / iter_changes. Failures explained by the listed known finding KF1 (decided by the H2 attribution hook, i.e. by call site) are reported as KNOWN-FINDING.",
        note="Trusted: harness parser/applier; H2 attribution hook; known finding KF1 listed in known_findings.json."),
    "C06": dict(
        cat="exploration", ref="5/C06",
        technique="bounded exhaustive enumeration of all short strings / byte strings over adversarial alphabets on the real tokenizers against reference tokenizers",
        text="All strings up to length 4-5 over 14 characters and all byte strings up to length 4-5 over 15 bytes (valid, truncated and invalid UTF-8) through all six tokenizers, compared with 40-line reference tokenizers and the partition/shape clauses.",
        note="Trusted: reference tokenizers, Rust's char::is_whitespace."),
    "C07": dict(
        cat="fault_enumeration", ref="5/C07",
        technique="exhaustive fault enumeration: the virtual clock (hook H1) flips to 'expired' at every probe index of every input in scope, on the real code; cursor-automaton oracle, comparison counting for promptness",
        text="For every input in the small scope and every probe index k up to the number of probes of the never-expiring run, the diff is executed with the clock expiring at k through all deadline entry points; validity, single finish, equivalence of never-expiring and no deadline, plumbing of builder/capture deadlines and a linear bound on post-expiry comparisons (also on large-input families) are checked.",
        note="Trusted: H1 hook placement (deadline_exceeded is the only clock access), counting element type; promptness constant calibrated with >= 2x slack."),
    "C08": dict(
        cat="fault_enumeration", ref="5/C08",
        technique="exhaustive fault enumeration: a failing DiffHook whose k-th call errors, for every k, through 9 adapter stacks on the real code; two-deviation part (deadline expiry x failing call); operation-sequence part (the same stack object handed to several diffs in a row)",
        text="For every input in scope, every adapter stack and every call index k of the success run, the hook fails at call k; the diff must return exactly that error, make no further call, and have made exactly the prefix of the success run. Success runs are checked for a single, last finish and the default replace behaviour. Part 'reused-stack': every history of up to 1 (thorough: 2) successful earlier diffs through the SAME stack object, then every failing call index of the last diff. Part 'thread-exit': the whole protocol from the Drop of a thread-local value while its thread exits.",
        note="Trusted: the harness's recording hooks."),
    "C09": dict(
        cat="exploration", ref="5/C09",
        technique="bounded exhaustive enumeration of inputs x capture entry points x every deadline-expiry point on the real code; normal-form predicate",
        text="Every captured op list produced in the C02 space (incl. every expiry point) is checked for strict Equal/non-Equal alternation, absence of empty ops and the latest-position rule for insertions.",
        note="Trusted: harness predicate; virtual clock hook H1."),
    "C10": dict(
        cat="model_checking", ref="5/C10",
        technique="explicit-state generation of every valid edit script (all paths of the (o,n) edit lattice with equal/delete/insert edges of every length) replayed against the real Compact/Replace adapters",
        text="For every pair in scope every valid script — any order, any segmentation — is generated by an explicit-state walk of the edit lattice and replayed through Replace, Compact and Compact<Replace> into Capture, composed by value and by reference (8 compositions); outputs are validated as scripts of equal cost, normal form and exact indices as stated. A second script space uses an item equality that is a many-to-many relation (a wildcard item), legal under the PartialEq bounds.",
        note="Trusted: script generator (the model) and C02/C09 automata; traces are replayed 1:1 on the implementation, there is no abstraction gap."),
    "C11": dict(
        cat="exploration", ref="5/C11",
        technique="bounded exhaustive enumeration of inputs x algorithms x sub-ranges on the real capture pipeline; exact cursor automaton; known-finding attribution by call site (hook H2)",
        text="Every op of every captured diff in scope must carry the exact cursor position in both sequences. Failures that disappear when the compaction-swap repair (H2) is armed and that went through at least one swap are instances of the listed known finding KF1; anything else is a violation.",
        note="Trusted: harness automaton; H2 attribution hook; KF1 listed in known_findings.json."),
    "C12": dict(
        cat="model_checking", ref="5/C12",
        technique="explicit-state enumeration of the grammar of valid alternating op lists, each replayed on the real group_diff_ops against an item-wise reference grouping",
        text="All alternating op lists up to 5-7 ops with equal runs covering n, 2n, 2n+1 and all change kinds, for every radius 0..4, are grouped by the real function and compared with a reference; contiguity, once-only, edge-context and split clauses are evaluated explicitly. On real diffs also operation sequences on one object: a TextDiff grouped with radius a then b, a UnifiedDiff used with radius a and then set to b.",
        note="Trusted: reference grouping; comparison ignores zero-length Equal ops (statement counts items)."),
    "C13": dict(
        cat="exploration", ref="5/C13",
        technique="bounded exhaustive enumeration of op shapes and whole diffs on the real expansion iterators against the direct definition",
        text="Every op of the four kinds with small indices/lengths over sequences with distinguishable old/new values is expanded item-wise and slice-wise and re-applied to a capturing hook; whole-diff iteration is compared with the concatenation of per-op expansions; both iterators of every op are also consumed in every way (nth / skip / step_by / take-then-rest / fold / count / last / peekable / find / zip / chain, size_hint at every position).",
        note="Trusted: harness definition of expansion."),
    "C14": dict(
        cat="exploration", ref="5/C14",
        technique="bounded exhaustive enumeration of core pairs x padding modes straddling the 100-token switch x tokenizers x algorithms on the real TextDiff; differential oracle against direct slice diffing",
        text="Every core pair is embedded so token counts fall on both sides of the integer-mapping threshold; TextDiff ops must equal capture_diff_slices on the token slices; algorithm()/newline_terminated() echoes and the IdentifyDistinct id/equality bijection and ranges are checked for five integer types. Also: a caller-side DiffableStr whose equality is not byte equality, configurations reached by other setter sequences (every setter twice, config used before), and the from_* shortcuts.",
        note="Trusted: differential oracle (independent of tokenizer correctness)."),
    "C15": dict(
        cat="exploration", ref="5/C15",
        technique="bounded exhaustive enumeration of inputs (incl. all relative orders of up to 7 unique items with junk) on the real Patience diff against an O(m^2) LIS oracle",
        text="For every input in scope the number of unique-on-both-sides items that Patience pairs with their counterpart must equal the length of the longest chain increasing on both sides.",
        note="Trusted: harness LIS."),
    "C16": dict(
        cat="exploration", ref="5/C16",
        technique="bounded exhaustive enumeration of line-text pairs x algorithms x inline deadline (none / expired / every probe) x str/bytes on the real inline expansion; also a build without the unicode feature",
        text="For every op of every line diff in scope the inline expansion is compared with the plain expansion (tags, indices, concatenation, emphasis placement, no line breaks emphasised, missing_newline).",
        note="Trusted: harness oracle; H1 clock."),
    "C17": dict(
        cat="exploration", ref="5/C17",
        technique="bounded exhaustive enumeration of text pairs x tokenizers x algorithms x str/bytes on the real remapper and helpers; pointer-identity and reconstruction oracle",
        text="Remapped slices must be pointer-identical substrings covering exactly the op's tokens; reconstruction of both texts; helpers never panic nor return empty slices; the answers are independent of the order of remapping, of the constructor used, and of how iter_slices is consumed. Small pairs are also diffed through a caller-side tokenization that contains zero-width tokens.",
        note="Trusted: harness oracle."),
    "C18": dict(
        cat="exploration", ref="5/C18",
        technique="bounded exhaustive enumeration of (word, candidate list, n, cutoff incl. every achievable ratio and its f32 neighbours) on the real get_close_matches against brute-force ranking",
        text="All words/candidates over {a,b,e-acute} up to length 4-5, all candidate lists up to length 3-4 from a pool, all n and all critical cutoffs; result must equal the brute-force ranking computed from the harness's own LCS, for str and for the same texts as [u8].",
        note="Trusted: harness DP and f32 expression of the documented ratio."),
    "C19": dict(
        cat="exploration", ref="5/C19",
        technique="bounded exhaustive enumeration of small inputs plus enumerated large-input families on the real code with a comparison-counting element type",
        text="Comparisons performed by Myers and Patience are counted by the element type and bounded by c*(N+M+1)*(D+1); exhaustive on the small scope, enumerated (not exhaustive) families at n up to 3000.",
        note="Trusted: counting element; constants c with measured slack; the large-size clause is decided on enumerated families only."),
    "C20": dict(
        cat="exploration", ref="5/C20",
        technique="exhaustive enumeration of hasher seeds, every hash-map iteration order (seam H3), relabellings and 2-call histories on the real code; differential oracle",
        text="The same inputs under every seed in range and every permutation of the uniqueness map's iteration order, under order-preserving relabellings, after every other call on the same thread, and as str vs bytes must give identical ops; with more than 2^16 distinct lines the line diff (interned ids) must equal the diff of the items themselves. A free-running 16-thread pass with real random seeds is supplementary.",
        note="Trusted: H3 seams cover every HashMap the crate builds in the diff path; the crate has no shared mutable state, so thread schedules reduce to (seed, history)."),
}

FAMILY_NOTE = (" Beyond the exhaustive small scopes the same oracle also runs on enumerated (non-exhaustive, "
               "labelled as such in the evidence) families of large or unusual inputs - sizes up to 9000 items, thresholds, "
               "asymmetric lengths, thousands of hunks, long and Unicode-rich texts, huge radii / op lengths - added after "
               "independently seeded changes showed which size- and width-triggered defects small scopes cannot reach "
               "(DESIGN.md sections 12-14). Later rounds added usage dimensions to every check (histories on one object, every way "
               "of consuming an iterator, re-entrant hooks, same-thread histories, aliasing, caller-side trait implementations and "
               "unusual element types). Each run executes in a child process: a death by signal (abort, stack overflow) and a shard "
               "that does not come back are reported as violations with a replay, not as a dead or hanging check.")

NOT_BUILT_REASON = "check not built yet in this snapshot of /verif (work in progress; see DESIGN.md section 11)"


def main():
    reg = subprocess.run([os.path.join(HERE, "harness/target/release/vcheck"), "--list"],
                         capture_output=True, text=True).stdout.split()
    props = [json.loads(l)["id"] for l in open(os.path.join(HERE, "properties.jsonl"))]
    hooks_commits = subprocess.run(
        ["git", "-C", "/repo", "log", "--format=%H %s", "--grep=^verif:"],
        capture_output=True, text=True).stdout.strip().splitlines()
    checks, na = [], []
    for pid in props:
        if pid in reg and pid in CHECKS:
            c = CHECKS[pid]
            checks.append({
                "property_id": pid,
                "quick_cmd": f"./run.sh {pid} quick",
                "thorough_cmd": f"./run.sh {pid} thorough",
                "evidence_file": f"/verif/evidence/{pid}.json",
                "replay_cmd_template": f"./run.sh {pid} --replay {{path}}",
                "engine": "vcheck",
                "level_claimed": {"category": c["cat"], "text": c["text"] + FAMILY_NOTE, "design_ref": c["ref"] + "; 12-14"},
                "level_note": c["note"] + " The enumerated families are complete over their fixed lists only.",
                "technique": c["technique"],
            })
        else:
            na.append({"property_id": pid, "reason": NOT_BUILT_REASON})
    manifest = {
        "version": 1,
        "setup_cmd": "./run.sh --build",
        "hooks": {
            "guard": "cfg(similar_verif)",
            "enable": "RUSTFLAGS=\"--cfg similar_verif\" (set by run.sh and harness/.cargo/config.toml); similar is a path dependency of /verif/harness on /repo, rebuilt by cargo on every run",
            "baseline_off_cmd": "cd /repo && cargo test --workspace --no-fail-fast --offline",
            "source_commits": [l.split()[0] for l in hooks_commits][::-1],
            "add_only": True,
        },
        "engines": [{
            "name": "vcheck",
            "path": "/verif/harness",
            "serves_properties": [c["property_id"] for c in checks],
            "kind_free_text": "stateless bounded-exhaustive explorer of the real code (16 worker threads, catch_unwind, deterministic enumeration order) with per-property reference oracles, environment-fault seams (virtual clock, failing hook, hash seed / iteration order) and explicit-state generators for edit scripts and op lists",
        }],
        "checks": checks,
        "notes": "All checks: exit 0 held / exit 1 VIOLATION line / exit 2 machinery error. Known findings: known_findings.json (committed, read-only at run time). Replay files are written under /verif/replays/<ID>/ only when a violation is reported.",
        "not_applicable": na,
    }
    out = os.path.join(HERE, "MANIFEST.json")
    json.dump(manifest, open(out, "w"), indent=1)
    try:
        import jsonschema
        jsonschema.validate(manifest, json.load(open("/root/.vp/MANIFEST.schema.json")))
        print("MANIFEST.json valid;", len(checks), "checks,", len(na), "not claimed")
    except ImportError:
        print("jsonschema not available; wrote MANIFEST.json unvalidated")


if __name__ == "__main__":
    main()
