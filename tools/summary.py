#!/usr/bin/env python3
"""Prints a markdown table of what the committed evidence files say (one row per check part)."""
import json, glob
print("| check | tier | part | cases | non-trivial | outcomes | exhaustive | s |")
print("|---|---|---|---|---|---|---|---|")
for f in sorted(glob.glob("/verif/evidence/C*.json")):
    e = json.load(open(f))
    for p in e["coverage"]["parts"]:
        print("| %s | %s | %s | %d | %d | %d | %s | %.1f |" % (e["property_id"], e["tier"], p["name"], p["evaluations"], p["distinct_nontrivial"], p["distinct_outcomes_observed"], "yes" if p["exhaustive"] else "NO", p["wall_s"]))
