#!/bin/bash
# usage: tools/seeded_all.sh [Cxx ...]
# For every kept seeded change /verif/seeded/<id>/patch.diff: apply it to /repo, run the quick
# checks listed in its meta.json ("caught_by_quick_checks"), require exit 1 + VIOLATION for each,
# replay the recorded counterexample, and revert /repo straight afterwards.
# Nothing else may be using /repo while this runs.  Results: /verif/seeded/RESULTS.md
set -u
cd /verif
[ -z "$(git -C /repo status --porcelain)" ] || { echo "/repo is dirty, refusing"; exit 2; }
IDS="${*:-$(ls seeded | grep -E '^C[0-9]+' )}"
OUT=seeded/RESULTS.md
TMP=$(mktemp)
for ID in $IDS; do
  [ -f "seeded/$ID/patch.diff" ] || continue
  CHECKS=$(python3 -c "import json;print(' '.join(json.load(open('seeded/$ID/meta.json')).get('caught_by_quick_checks',['$ID'])))")
  git -C /repo apply "/verif/seeded/$ID/patch.diff" || { echo "$ID: patch does not apply"; continue; }
  for C in $CHECKS; do
    S=$(date +%s); ./run.sh "$C" quick > /tmp/sa_$$.log 2>&1; RC=$?; E=$(date +%s)
    RP=$(grep "^VIOLATION property=$C " /tmp/sa_$$.log | sed 's/.*replay=//')
    RRC="-"
    if [ -n "$RP" ]; then ./run.sh "$C" --replay "$RP" > /dev/null 2>&1; RRC=$?; fi
    COMPLAINT=$(grep "^complaint:" /tmp/sa_$$.log | head -1 | cut -c12-260 | tr '|' '/')
    echo "| $ID | $C | $RC | $RRC | $((E-S)) | $COMPLAINT |" >> "$TMP"
    echo "$ID $C: exit=$RC replay=$RRC"
  done
  git -C /repo checkout -- .
done
git -C /repo status --porcelain
git -C /verif checkout -- evidence 2>/dev/null
# with explicit ids: rows of the other kept changes are carried over from the previous table
if [ $# -gt 0 ] && [ -f "$OUT" ]; then
  PAT=$(echo $IDS | sed 's/ /|/g')
  grep -E '^\| C[0-9]+' "$OUT" | grep -vE "^\| ($PAT) \|" >> "$TMP"
fi
{ echo "| seeded change | check | exit (1 = VIOLATION reported) | replay exit | seconds | first complaint |"; echo "|---|---|---|---|---|---|"; sort "$TMP"; } > "$OUT"
rm -f "$TMP" /tmp/sa_$$.log
