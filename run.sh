#!/bin/bash
# usage: ./run.sh <ID> <quick|thorough>      run one property check (cwd = /verif)
#        ./run.sh <ID> --replay <file>       re-execute one recorded case twice (determinism check) and report
#        ./run.sh --build                    build the harness only (MANIFEST.setup_cmd)
# exit 0 = property held on everything explored (KNOWN-FINDING lines possible)
# exit 1 = "VIOLATION property=<id> replay=<path>" printed
# exit 2 = build failure / harness error (never a verdict)
set -u
HERE="$(cd "$(dirname "${BASH_SOURCE[0]}")" && pwd)"
export VERIF_DIR="$HERE"
export CARGO_NET_OFFLINE=true
export RUSTFLAGS="--cfg similar_verif"
cd "$HERE/harness" || exit 2

build() { # $1 = target dir, rest = extra cargo args
  local tdir="$1"; shift
  local log
  log="$(mktemp)"
  if ! CARGO_TARGET_DIR="$tdir" cargo build --release --offline "$@" >"$log" 2>&1; then
    echo "harness build failed (this is a machinery error, not a verdict):" >&2
    grep -E "^(error|warning: unused)" -A12 "$log" | head -80 >&2
    rm -f "$log"
    return 2
  fi
  rm -f "$log"
  return 0
}

if [ "${1:-}" = "--build" ]; then
  build "$HERE/harness/target" || exit 2
  build "$HERE/harness/target-nounicode" --no-default-features || exit 2
  exit 0
fi
[ $# -ge 2 ] || { sed -n 2,8p "$HERE/run.sh"; exit 2; }
ID="$1"; shift

build "$HERE/harness/target" || exit 2
BIN="$HERE/harness/target/release/vcheck"
if [ "$1" = "--replay" ]; then
  case "$2" in
    *.nounicode.json)
      build "$HERE/harness/target-nounicode" --no-default-features || exit 2
      exec "$HERE/harness/target-nounicode/release/vcheck" "$ID" --replay "$2" ;;
  esac
  exec "$BIN" "$ID" --replay "$2"
fi
TIER="$1"
if [ "$ID" = "C16" ]; then
  # the inline splitter differs without the `unicode` feature: same check on a second build
  build "$HERE/harness/target-nounicode" --no-default-features || exit 2
  SIDE="$HERE/harness/target-nounicode/C16.nounicode.json"
  VERIF_BUILD_VARIANT=".nounicode" VERIF_EVIDENCE_PATH="$SIDE" "$HERE/harness/target-nounicode/release/vcheck" C16 "$TIER"
  rc=$?
  [ $rc -eq 0 ] || exit $rc
  export VERIF_C16_SIDE="$SIDE"
fi
exec "$BIN" "$ID" "$TIER"
